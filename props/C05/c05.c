/* C05 — the encoder honours the buffer limit, the exact CBR size and the bitrate target.
 *
 * Every oracle below is taken from the property statement (and, for the meaning of "bitrate" and of a valid
 * packet, from the public headers and RFC 6716), never from src/opus_encoder.c:
 *
 *  (a) bounds     : the output buffer is a heap block of EXACTLY max_data_bytes bytes (ASan redzones abut on both
 *                   sides, so one byte too many is a crash attributed to the case in flight); the return value is a
 *                   length in 1..max_data_bytes.  OPUS_BUFFER_TOO_SMALL is tolerated only for a "too-small buffer",
 *                   which we define from RFC 6716 alone: max_data_bytes is smaller than the smallest well-formed
 *                   packet of the requested duration (1 byte; 2 bytes for 100 ms = 5 frames = code 3; for
 *                   multistream the sum over the streams incl. the Appendix-B length byte of all but the last).
 *                   No other error code is ever acceptable.
 *  (b) valid      : every returned packet is accepted by the RFC framing model (mc/rfc_framing.h; for multistream
 *                   S-1 self-delimited packets followed by one standard packet that together consume exactly the
 *                   returned length) and by the tree's own decoder, which must hand back exactly frame_size
 *                   samples per channel ("never a corrupt one").
 *  (c) CBR size   : with VBR off and the packet not empty (DESIGN G5b: empty == every frame payload <= 1 byte),
 *                     explicit bitrate b : ret == clip(round(B*T/8), 1, min(max_data_bytes,1276)),
 *                                          B = b clamped to the range the ctl accepts as meaningful,
 *                                          [500, 300000*channels] (and OPUS_GET_BITRATE must echo exactly that B),
 *                                          T = frame_size/Fs.  round() is evaluated in exact rational arithmetic;
 *                                          on an exact .5 tie either neighbour is accepted (ties are counted).
 *                     OPUS_BITRATE_MAX   : ret == min(max_data_bytes,1276) if the packet holds one frame,
 *                                          ret == max_data_bytes otherwise ("fills the output buffer").
 *                     OPUS_AUTO          : the statement gives no number: bounds + the size is the same from frame
 *                                          to frame under unchanged settings.  (OPUS_GET_BITRATE is NOT used: it
 *                                          resolves AUTO with the previous sub-frame size.)
 *                   Multistream: the same formula for the whole packet with B clamped to [500,300000]*channels and
 *                   the clip [smallest well-formed packet, max_data_bytes] (1276 is a per-Opus-packet constant).
 *  (d) CVBR       : mean packet size over 10 s <= B*T/8 + 1 (the TOC byte, which the rate control does not count)
 *                   + a calibrated tolerance (see CVBR_TOL_* below, with the calibration run that produced it).
 *
 * Parts (selected with --mode):
 *   grid : E3 product enumeration. item = (Fs, channels, application, duration, {CBR,VBR,CVBR}); inside: every bitrate
 *          of the alphabet x signals; one encoder per (.., bitrate, signal) walks through the WHOLE max_data_bytes
 *          alphabet (one or two frames per value, order = start/stride permutation fixed by the chain parameters),
 *          so every frame also has a history of buffer-size switches behind it.  --fresh 1 additionally encodes
 *          with a brand-new encoder for every max_data_bytes value.
 *   hist : explicit-state exploration. From a warmed-up encoder, ALL sequences of length 3 over
 *          {toggle VBR, set bitrate b1, set bitrate b2, set max bytes m1, set max bytes m2, toggle VBR constraint},
 *          one encode after every op; encoder images are snapshotted/restored with memcpy and hashed into a shared
 *          visited set (states = distinct images, transitions = op+encode steps).
 *   ms   : the same chain walk for OpusMSEncoder with 2-4 streams (explicit mappings and surround family 1).
 *   mshist: the hist exploration on OpusMSEncoder.
 *   cvbr : 10 s runs, long-term average, on constant configurations and after deviation-bounded histories (prefix mode class x rate-control
 *          history x measured mode class, see the comment above cvbr_hist_item).
 *   grid additionally holds the activity items (DTX {off,on} x FEC / complexity deviation x loud/silence schedules, see activity_item);
 *   hist repeats its bases with DTX on.
 */
#include <stdlib.h>
#include <string.h>
#include <stdio.h>
#include "opus.h"
#include "opus_multistream.h"
#include "mc.h"
#include "rfc_framing.h"
#include "signals.h"

/* ------------------------------------------------------------------ alphabets (DESIGN §4 C05) */
static const int FS[5]={8000,12000,16000,24000,48000};
static const int APP[3]={OPUS_APPLICATION_VOIP,OPUS_APPLICATION_AUDIO,OPUS_APPLICATION_RESTRICTED_LOWDELAY};
static const char *const APPN[3]={"VOIP","AUDIO","RESTRICTED_LOWDELAY"};
static const int DU[9]={1,2,4,8,16,24,32,40,48};            /* frame duration in units of 2.5 ms */
#define NBR 17
static const int BR[NBR]={500,501,1000,2400,6000,8000,12000,16000,24000,32000,64000,128000,256000,510000,512000,OPUS_AUTO,OPUS_BITRATE_MAX};
static const int SIGF[4]={SIG_SILENCE,SIG_NOISE,SIG_MULTITONE,SIG_SQUARE};   /* silence, noise, tone, full-scale */
static const char *const MODEN[3]={"CBR","VBR","CVBR"};
static const int MDB_EXTRA[15]={64,100,200,253,254,255,256,257,400,1000,1275,1276,1277,1500,4000};
static int MDB[1400], NMDB;
static unsigned char *BLK[4001];                              /* BLK[n]: heap block of exactly n bytes */

static const char *brname(int b){ static char t[4][24]; static int r; char *o=t[r=(r+1)&3];
   if (b==OPUS_AUTO) return "OPUS_AUTO"; if (b==OPUS_BITRATE_MAX) return "OPUS_BITRATE_MAX"; snprintf(o,24,"%d",b); return o; }
static const char *errname(int e){ switch(e){ case OPUS_BAD_ARG: return "BAD_ARG"; case OPUS_BUFFER_TOO_SMALL: return "BUFFER_TOO_SMALL"; case OPUS_INTERNAL_ERROR: return "INTERNAL_ERROR";
   case OPUS_INVALID_PACKET: return "INVALID_PACKET"; case OPUS_UNIMPLEMENTED: return "UNIMPLEMENTED"; case OPUS_INVALID_STATE: return "INVALID_STATE"; case OPUS_ALLOC_FAIL: return "ALLOC_FAIL"; default: return "OTHER"; } }

static void need_blk(int n){ if (n>=1&&n<=4000&&!BLK[n]){ BLK[n]=malloc(n); if(!BLK[n]){ fprintf(stderr,"oom\n"); exit(2);} memset(BLK[n],0x5A,n); } }
static void mk_mdb(int full){
   int i; NMDB=0;
   if (full){ for(i=1;i<=1300;i++) MDB[NMDB++]=i; MDB[NMDB++]=1500; MDB[NMDB++]=4000; }
   else { for(i=1;i<=48;i++) MDB[NMDB++]=i; for(i=0;i<15;i++) MDB[NMDB++]=MDB_EXTRA[i]; }
   for(i=0;i<NMDB;i++) need_blk(MDB[i]);
}

/* ------------------------------------------------------------------ multistream layouts: 2-4 streams */
typedef struct { const char *name; int ch, streams, coupled, family; unsigned char map[8]; } lay_t;
#define NLAY 10
static const lay_t LAY[NLAY]={
   {"2 mono streams (2ch)",2,2,0,-1,{0,1}},
   {"1 coupled + 1 mono (3ch)",3,2,1,-1,{0,1,2}},
   {"2 coupled (4ch)",4,2,2,-1,{0,1,2,3}},
   {"3 mono streams (3ch)",3,3,0,-1,{0,1,2}},
   {"1 coupled + 2 mono (4ch)",4,3,1,-1,{0,1,2,3}},
   {"4 mono streams (4ch)",4,4,0,-1,{0,1,2,3}},
   {"2 coupled + 2 mono (6ch)",6,4,2,-1,{0,1,2,3,4,5}},
   {"surround family 1, 3ch (2 streams)",3,0,0,1,{0}},
   {"surround family 1, 5ch (3 streams)",5,0,0,1,{0}},
   {"surround family 1, 5.1 (4 streams incl. LFE)",6,0,0,1,{0}},
};

/* ------------------------------------------------------------------ counters / sets */
static mc_ctr *c_mixed,*c_sizefail,*c_eval,*c_trans,*c_cbr_exact,*c_cbr_tie,*c_cbr_tie_up,*c_max_fill,*c_auto_const,*c_empty,*c_toosmall,*c_rfc,*c_dec,*c_vbr_pk,*c_bytes,*c_merged,*c_chains,*c_clip_lo,*c_clip_hi,*c_cvbr_runs;
static mc_set *g_states,*g_obs;

/* ------------------------------------------------------------------ signals: a period of 1.2 s per family, precomputed per (Fs,ch) */
static short *SB[4]; static int SB_fs, SB_ch, SB_period, SB_nf; static const int *SB_fams;
static void mk_signals(int Fs,int ch,const int *fams,int nf,int period_ms){
   int k; long L;
   if (SB_fs==Fs&&SB_ch==ch&&SB_fams==fams&&SB_nf==nf&&SB_period==Fs/1000*period_ms) return;
   for(k=0;k<4;k++){ free(SB[k]); SB[k]=NULL; }
   SB_fs=Fs; SB_ch=ch; SB_fams=fams; SB_nf=nf; SB_period=Fs/1000*period_ms; L=SB_period+5760;
   for(k=0;k<nf;k++){ siggen g; SB[k]=malloc(sizeof(short)*L*ch); sig_init(&g,fams[k],Fs,ch,7u+k); sig_gen(&g,SB[k],(int)L); }
}
static const short *sig_frame(int k,long frame_idx,int fs,int ch){ long pos=(frame_idx*(long)fs)%SB_period; return SB[k]+pos*ch; }

/* ------------------------------------------------------------------ the codec under test behind one interface */
typedef struct {
   int ms; int Fs,ch,app,du,fs; const lay_t *lay; int streams;
   void *enc; size_t enc_size; void *dec;
   /* harness model of the rate settings */
   int use_vbr,cvbr,braw;
   /* frame-to-frame constancy memory for OPUS_AUTO in CBR */
   int last_valid,last_sz,last_mdb;
   char desc[256];
} codec;

static int X_ctl(codec *c,int req,int v){ return c->ms? opus_multistream_encoder_ctl(c->enc,req,v) : opus_encoder_ctl(c->enc,req,v); }
static int set_vbr(codec *c,int v){ c->use_vbr=v; c->last_valid=0; return X_ctl(c,OPUS_SET_VBR_REQUEST,v); }
static int set_cvbr(codec *c,int v){ c->cvbr=v; c->last_valid=0; return X_ctl(c,OPUS_SET_VBR_CONSTRAINT_REQUEST,v); }
static int set_br(codec *c,int b){ c->braw=b; c->last_valid=0; return X_ctl(c,OPUS_SET_BITRATE_REQUEST,b); }
/* the bitrate an explicit setting stands for */
static long br_clamp(const codec *c,int b){ long lo=c->ms?500L*c->ch:500L, hi=300000L*c->ch; return b<lo?lo:b>hi?hi:b; }

/* objects are calloc'ed: bytes the init functions never touch (alignment padding between the stream encoders) would otherwise make
   the image hashes depend on the worker's heap history */
static int codec_open(codec *c,int ms,int Fs,int ch_or_lay,int app,int du){
   int err=0;
   memset(c,0,sizeof *c); c->ms=ms; c->Fs=Fs; c->app=app; c->du=du; c->fs=Fs/400*du; c->use_vbr=1; c->cvbr=1; c->braw=OPUS_AUTO;
   if (!ms){
      c->ch=ch_or_lay; c->streams=1; c->enc_size=opus_encoder_get_size(c->ch); c->enc=calloc(1,c->enc_size);
      err=opus_encoder_init(c->enc,Fs,c->ch,APP[app]); c->dec=opus_decoder_create(Fs,c->ch,&err);
      snprintf(c->desc,sizeof c->desc,"OpusEncoder Fs=%d ch=%d app=%s dur=%gms frame_size=%d",Fs,c->ch,APPN[app],du*2.5,c->fs);
   } else {
      const lay_t *l=&LAY[ch_or_lay]; int st=l->streams,cp=l->coupled; unsigned char map[8];
      c->lay=l; c->ch=l->ch; memcpy(map,l->map,8);
      if (l->family>=0){
         c->enc_size=opus_multistream_surround_encoder_get_size(l->ch,l->family); c->enc=calloc(1,c->enc_size);
         err=opus_multistream_surround_encoder_init(c->enc,Fs,l->ch,l->family,&st,&cp,map,APP[app]);
      } else {
         c->enc_size=opus_multistream_encoder_get_size(st,cp); c->enc=calloc(1,c->enc_size);
         err=opus_multistream_encoder_init(c->enc,Fs,l->ch,st,cp,map,APP[app]);
      }
      c->streams=st;
      if (err==OPUS_OK) c->dec=opus_multistream_decoder_create(Fs,l->ch,st,cp,map,&err);
      snprintf(c->desc,sizeof c->desc,"OpusMSEncoder [%s: %d streams, %d coupled] Fs=%d app=%s dur=%gms frame_size=%d",l->name,st,cp,Fs,APPN[app],du*2.5,c->fs);
   }
   if (err!=OPUS_OK||!c->enc||!c->dec){ mc_fail("setup:create","%s: create/init failed (%d)",c->desc,err); return -1; }
   return 0;
}
static void codec_close(codec *c){ free(c->enc); if(c->dec){ if(c->ms) opus_multistream_decoder_destroy(c->dec); else opus_decoder_destroy(c->dec);} c->enc=c->dec=NULL; }

static const char *modename(const codec *c){ return !c->use_vbr?"CBR":c->cvbr?"CVBR":"VBR"; }
static const char *apiname(const codec *c){ return c->ms?"ms":"enc"; }

/* smallest well-formed packet of this duration per RFC 6716 (see header comment) */
static int min_rfc_packet(const codec *c){ int one=(c->du==40)?2:1; if(!c->ms) return one; return (c->streams-1)*(one+1)+one; }

/* exact round(B*T/8) = round(B*fs/(8*Fs)), half up; *tie = the value is exactly x.5 */
static long cbr_round(long B,int fs,int Fs,int *tie){ long long num=2LL*B*fs, den=8LL*Fs; *tie=(num%den==0)&&((num/den)&1); return (long)((num+den)/(2*den)); }

static float DECOUT[5760*8];

/* judge one encode call. how = free text describing the history that led here. returns 1 if a failure was recorded */
static int judge(codec *c,const short *pcm,int mdb,const char *how,int *len_out){
   unsigned char *out=BLK[mdb]; int ret,i,s,off,nframes=0,empty=1,ndropped=0,r,toc0=0,code0=0; int szfail=0; char sig[96]; rfc_pkt m;
   memset(out,0x5A,mdb);
   mc_case(c->ms?"ms:encode":"enc:encode","%s mode=%s bitrate=%s max_data_bytes=%d (exact-size heap block) | %s",c->desc,modename(c),brname(c->braw),mdb,how);
   ret = c->ms? opus_multistream_encode(c->enc,pcm,c->fs,out,mdb) : opus_encode(c->enc,pcm,c->fs,out,mdb);
   MC_INC(c_eval); MC_INC(c_trans); if (len_out) *len_out=ret;
   /* (a) return value */
   if (ret<0){
      if (ret==OPUS_BUFFER_TOO_SMALL && mdb<min_rfc_packet(c)){ MC_INC(c_toosmall); c->last_valid=0; return 0; }
      snprintf(sig,sizeof sig,"%s:ret_error:%s:%s",apiname(c),modename(c),errname(ret));
      /* narrowly scoped signature of a defect found on the unchanged tree (FINDINGS F-C05-2: a repacketised sub-frame may be given more than
         1276 bytes when the buffer exceeds 2*1276, the SILK->CELT redundancy then makes a 1513-byte frame and opus_repacketizer_cat refuses it) */
      if (ret==OPUS_INTERNAL_ERROR && c->use_vbr && c->du>=16 && mdb>2552)
         snprintf(sig,sizeof sig,"%s:ret_error:INTERNAL_ERROR:vbr_frame_ge_40ms_buffer_gt_2552",apiname(c));
      mc_fail(sig,"%s mode=%s bitrate=%s max_data_bytes=%d -> returned %d (%s); smallest well-formed packet of this duration is %d bytes, so the buffer is not too small | %s",
              c->desc,modename(c),brname(c->braw),mdb,ret,errname(ret),min_rfc_packet(c),how);
      return 1;
   }
   if (ret<1||ret>mdb){
      snprintf(sig,sizeof sig,"%s:ret_range:%s",apiname(c),modename(c));
      mc_fail(sig,"%s mode=%s bitrate=%s max_data_bytes=%d -> returned %d, outside 1..max_data_bytes | %s",c->desc,modename(c),brname(c->braw),mdb,ret,how);
      return 1;
   }
   MC_ADD(c_bytes,ret);
   /* (b) framing */
   off=0;
   for(s=0;s<c->streams;s++){
      int sd = s<c->streams-1;
      rfc_parse(out+off,ret-off,sd,&m);
      if (!m.ok){
         snprintf(sig,sizeof sig,"%s:rfc_invalid:%s",apiname(c),modename(c));
         mc_fail(sig,"%s mode=%s bitrate=%s max_data_bytes=%d -> %d bytes; stream %d at offset %d is not well-formed (%s framing): %s | %s",
                 c->desc,modename(c),brname(c->braw),mdb,ret,s,off,sd?"self-delimited":"standard",mc_hex(out,ret<48?ret:48),how);
         return 1;
      }
      if (s==0){ toc0=m.toc>>3; code0=m.toc&3; }
      nframes+=m.count; for(i=0;i<m.count;i++){ if(m.size[i]>1) empty=0; else ndropped++; }
      off+=m.consumed;
   }
   if (off!=ret){
      snprintf(sig,sizeof sig,"%s:rfc_length:%s",apiname(c),modename(c));
      mc_fail(sig,"%s mode=%s max_data_bytes=%d -> %d bytes but the streams account for %d: %s | %s",c->desc,modename(c),mdb,ret,off,mc_hex(out,ret<48?ret:48),how);
      return 1;
   }
   MC_INC(c_rfc); if (!empty && ndropped>0) MC_INC(c_mixed);      /* some frames dropped (payload <= 1 byte), some coded: NOT a DTX packet */
   /* (b) tree decoder */
   r = c->ms? opus_multistream_decode_float(c->dec,out,ret,DECOUT,5760,0) : opus_decode_float(c->dec,out,ret,DECOUT,5760,0);
   if (r<=0){
      snprintf(sig,sizeof sig,"%s:decoder_rejects:%s",apiname(c),modename(c));
      mc_fail(sig,"%s mode=%s bitrate=%s max_data_bytes=%d -> %d bytes rejected by the decoder (%d %s): %s | %s",c->desc,modename(c),brname(c->braw),mdb,ret,r,errname(r),mc_hex(out,ret<48?ret:48),how);
      return 1;
   }
   if (r!=c->fs){
      /* a packet of another duration is not an encoding of this frame (e.g. 120 ms returned for a 100 ms call into a 1-byte buffer) */
      snprintf(sig,sizeof sig,"%s:wrong_duration:%s",apiname(c),modename(c));
      mc_fail(sig,"%s mode=%s bitrate=%s max_data_bytes=%d -> %d bytes that decode to %d samples per channel instead of frame_size=%d: %s | %s",c->desc,modename(c),brname(c->braw),mdb,ret,r,c->fs,mc_hex(out,ret<48?ret:48),how);
      return 1;
   }
   MC_INC(c_dec);
   /* (c) CBR size */
   if (!c->use_vbr){
      opus_int32 dtx_on=0;
      if (empty){ if (c->ms) opus_multistream_encoder_ctl(c->enc,OPUS_GET_DTX(&dtx_on)); else opus_encoder_ctl(c->enc,OPUS_GET_DTX(&dtx_on)); }
      /* "every packet that is not a DTX packet": with OPUS_SET_DTX(0) no packet is one, so an empty packet (every frame payload <= 1 byte, e.g. the
         low-budget TOC-only path) is exempt only while DTX is enabled; with DTX off it must have the CBR size like any other packet */
      if (empty && dtx_on){ MC_INC(c_empty); c->last_valid=0; }
      else if (c->braw==OPUS_BITRATE_MAX){
         int want = c->ms? mdb : (nframes==1? (mdb<1276?mdb:1276) : mdb);
         if (ret!=want){
            snprintf(sig,sizeof sig,"%s:cbr_size:bitrate_max:%s",apiname(c),nframes==1?"single_frame":"multi_frame");
            mc_fail(sig,"%s CBR bitrate=OPUS_BITRATE_MAX max_data_bytes=%d -> %d bytes (%d frame(s)), statement demands %d | first bytes %s | %s",c->desc,mdb,ret,nframes,want,mc_hex(out,ret<16?ret:16),how);
            MC_INC(c_sizefail); szfail=1;         /* the packet itself is usable: keep walking the chain */
         } else MC_INC(c_max_fill);
      } else if (c->braw==OPUS_AUTO){
         if (c->last_valid && c->last_mdb==mdb){
            if (c->last_sz!=ret){
               snprintf(sig,sizeof sig,"%s:cbr_size:auto_not_constant",apiname(c));
               mc_fail(sig,"%s CBR bitrate=OPUS_AUTO max_data_bytes=%d -> %d bytes, previous frame under identical settings had %d | %s",c->desc,mdb,ret,c->last_sz,how);
               MC_INC(c_sizefail); szfail=1;
            } else MC_INC(c_auto_const);
         }
         c->last_valid=1; c->last_sz=ret; c->last_mdb=mdb;
      } else {
         long B=br_clamp(c,c->braw); int tie; long q=cbr_round(B,c->fs,c->Fs,&tie);
         long lo=c->ms?min_rfc_packet(c):1, hi=c->ms?mdb:(mdb<1276?mdb:1276), want, alt;
         want = q<lo?lo:q>hi?hi:q; alt = (q-1)<lo?lo:(q-1)>hi?hi:(q-1);
         if (q<lo) MC_INC(c_clip_lo); else if (q>hi) MC_INC(c_clip_hi);
         if (tie){ MC_INC(c_cbr_tie); if(ret==want) MC_INC(c_cbr_tie_up); }
         if (!(ret==want || (tie && ret==alt))){
            long long fl = (long long)B*c->fs/(8LL*c->Fs); long flc = fl<lo?lo:fl>hi?hi:(long)fl;
            snprintf(sig,sizeof sig,"%s:cbr_size:explicit%s",apiname(c),(c->ms&&ret==flc)?":truncated_not_rounded":"");
            mc_fail(sig,"%s CBR bitrate=%s (B=%ld after the clamp) max_data_bytes=%d -> %d bytes; round(B*T/8)=round(%ld*%d/(8*%d))=%ld, clipped to [%ld,%ld] = %ld | first bytes %s | %s",
                    c->desc,brname(c->braw),B,mdb,ret,B,c->fs,c->Fs,q,lo,hi,want,mc_hex(out,ret<16?ret:16),how);
            MC_INC(c_sizefail); szfail=1;
         } else MC_INC(c_cbr_exact);
      }
   } else MC_INC(c_vbr_pk);
   /* observation classes: what kinds of packets did the exploration actually see (only packets that passed every clause) */
   if (!szfail){
      int szc = ret<=2?ret:ret<8?3:ret<32?4:ret<128?5:ret<512?6:ret<1276?7:ret==1276?8:9;
      int clause = c->use_vbr?(c->cvbr?5:4):(empty&&ret<=2)?0:c->braw==OPUS_BITRATE_MAX?1:c->braw==OPUS_AUTO?2:3;
      uint64_t h=mc_mix(mc_mix(c->ms*16+c->streams,toc0),mc_mix(code0*64+(nframes>63?63:nframes),szc*16+clause)); h=mc_mix(h,(ret==mdb)*2+empty);
      if (mc_set_add(g_obs,h))
         mc_sample("%s mode=%s bitrate=%s max_data_bytes=%d -> %d bytes, %d frame(s), TOC config %d code %d%s; RFC model + decoder accept%s | %s",
                   c->desc,modename(c),brname(c->braw),mdb,ret,nframes,toc0,code0,empty?" (empty packet, G5b)":"",
                   c->use_vbr?"":empty?"; CBR size clause exempt":c->braw==OPUS_AUTO?"; CBR/AUTO: constancy":"; CBR size == statement formula",how);
   }
   return 0;      /* size-clause failures are recorded but do not end the chain */
}
static void note_state(codec *c,uint64_t salt){ mc_set_add(g_states,mc_hash(c->enc,c->enc_size,salt)); }

/* ------------------------------------------------------------------ part grid / ms : chain walk over the max_data_bytes alphabet */
static int g_nrep, g_allsig, g_fresh;
static const int STRIDES[4]={1,25,11,-1};   /* coprime to 63 and to 1302; -1 = descending */

/* one encoder, all max_data_bytes values. returns frames encoded */
static void chain(int ms,int Fs,int chl,int ai,int di,int mode,int bi,int si,long *frame_ctr){
   codec c; int j,rep,nrep,start,stride; char how[200]; long k=0;
   if (codec_open(&c,ms,Fs,chl,ai,DU[di])) return;
   MC_INC(c_chains);
   if (set_vbr(&c,mode!=0)!=OPUS_OK || set_cvbr(&c,mode==2)!=OPUS_OK || set_br(&c,BR[bi])!=OPUS_OK){ mc_fail("setup:ctl","%s: a rate ctl was refused",c.desc); codec_close(&c); return; }
   if (!ms && BR[bi]!=OPUS_AUTO && BR[bi]!=OPUS_BITRATE_MAX){
      opus_int32 g=-1; opus_encoder_ctl(c.enc,OPUS_GET_BITRATE(&g));
      if (g!=br_clamp(&c,BR[bi])){ mc_fail("enc:bitrate_readback","%s: OPUS_SET_BITRATE(%d) reads back as %d, expected the clamp to [500,300000*channels] = %ld",c.desc,BR[bi],(int)g,br_clamp(&c,BR[bi])); codec_close(&c); return; }
   }
   nrep = (BR[bi]==OPUS_AUTO && mode==0)? 2 : g_nrep;
   start = (bi*7+si*13+di*3+ai)%NMDB; stride = STRIDES[(si+bi+mode)&3]; if (stride<0) stride=NMDB-1;
   for(j=0;j<NMDB;j++){
      int mdb=MDB[(start+(long)j*stride)%NMDB];
      for(rep=0;rep<nrep;rep++){
         snprintf(how,sizeof how,"signal=%s; chain frame %ld: fresh encoder, then max_data_bytes = alphabet[(%d+j*%d)%%%d] for j=0..%d, %d frame(s) each",sig_name[SIGF[si]],k,start,stride,NMDB,j,nrep);
         if (judge(&c,sig_frame(si,k,c.fs,c.ch),mdb,how,NULL)){ codec_close(&c); return; }
         k++;
      }
      if ((j&7)==7) note_state(&c,1);
   }
   note_state(&c,1);
   *frame_ctr+=k;
   codec_close(&c);
}
/* brand-new encoder for every max_data_bytes value, two frames */
static void fresh_runs(int ms,int Fs,int chl,int ai,int di,int mode,int bi,int si){
   int j,f; char how[160];
   for(j=0;j<NMDB;j++){
      codec c; if (codec_open(&c,ms,Fs,chl,ai,DU[di])) return;
      set_vbr(&c,mode!=0); set_cvbr(&c,mode==2); set_br(&c,BR[bi]);
      for(f=0;f<2;f++){ snprintf(how,sizeof how,"signal=%s; frame %d of a brand-new encoder",sig_name[SIGF[si]],f); if (judge(&c,sig_frame(si,f,c.fs,c.ch),MDB[j],how,NULL)){ codec_close(&c); return; } }
      note_state(&c,2); codec_close(&c);
   }
}
static int g_fsmask=31, g_redgrid, g_split;
static void grid_item(long it,void *ctx){
   int bsel=-1, mode,di,ai,ch,fi,bi,si; long fr=0; (void)ctx;
   if (g_split){ bsel=(int)(it%NBR); it/=NBR; }          /* --split 1: one item per bitrate (long chains of the full 1..1300 sweep) */
   mode=it%3; di=(it/3)%9; ai=(it/27)%3; ch=1+(it/81)%2; fi=(int)(it/162);
   if (!((g_fsmask>>fi)&1)) return;
   /* reduced grid, Latin rotation: --redgrid 1 = one (rate, application) per (channels,duration,mode); --redgrid 2 = one application, all rates */
   if (g_redgrid && ai!=(di+mode+ch)%3) return;
   if (g_redgrid==1 && fi!=(ch+di+mode)%5) return;
   mk_signals(FS[fi],ch,SIGF,4,1200);
   for(bi=0;bi<NBR;bi++) for(si=0;si<4;si++){
      if (bsel>=0 && bi!=bsel) continue;
      if (!g_allsig && si!=(int)((bi+di+ai+mode+fi+ch)&3)) continue;
      if (g_fresh!=2) chain(0,FS[fi],ch,ai,di,mode,bi,si,&fr);
      if (g_fresh) fresh_runs(0,FS[fi],ch,ai,di,mode,bi,si);       /* --fresh 2: only brand-new encoders */
   }
}
/* ------------------------------------------------------------------ part grid, activity items: DTX {off,on} x one further deviation x schedules
 * The statement's CBR clause exempts exactly the DTX packets, so DTX-on is inside the property.  Space:
 *   9 durations x {CBR,VBR,CVBR} x DTX {off,on} x deviation {none, in-band FEC on (+20 % expected loss), complexity 5, complexity 10}
 *   x 5 activity schedules over 1.9 s (loud / digital silence, <= 2 switch points that do NOT fall on packet boundaries, >= 1.39 s of
 *   silence in one stretch so that the DTX hang-over, a DTX run and the 400 ms refresh all occur)   = 1080 combinations,
 *   each run for P picks of (rate, channels, application, bitrate, max_data_bytes, loud family): quick P=4 chosen by a Latin rotation,
 *   thorough P=60 = all 30 (rate, channels, application) x 2 rotated (bitrate, max_data_bytes) picks.
 * Oracle: judge() unchanged - every packet is parsed with the RFC model, it is a DTX/empty packet iff EVERY frame payload is <= 1 byte and
 * exactly those are exempt; every other CBR packet must have the statement's exact size, whatever mixture of coded and dropped frames it holds. */
static const int AX_BR[10]={8000,12000,16000,24000,32000,64000,128000,510000,OPUS_AUTO,OPUS_BITRATE_MAX};
static const int AX_MDB[6]={1500,1500,4000,1276,200,48};
static const char *const AX_DEVN[4]={"none","in-band FEC on + 20% expected loss","complexity 5","complexity 10"};
/* loud intervals [a,b) in ms inside a 1900 ms run */
static const int AX_SCHED[5][4]={{0,0,0,0},{0,310,0,0},{1390,1900,0,0},{0,250,1650,1900},{290,500,0,0}};
static const char *const AX_SCHEDN[5]={"silence 1900 ms","loud 0-310 ms then silence","silence 0-1390 ms then loud","loud 0-250 ms, silence, loud 1650-1900 ms","silence, loud 290-500 ms, silence"};
#define AX_NCOMBO 1080L
static int g_ax_picks;
static short AXF[5760*2];
static void ax_frame(int loudfam,long s0,int fs,int ch,int Fs,int sched){
   long n; for(n=0;n<fs;n++){ long ms_x10=(s0+n)*10000/Fs; int loud=0,k; for(k=0;k<4;k+=2) if (ms_x10>=AX_SCHED[sched][k]*10L && ms_x10<AX_SCHED[sched][k+1]*10L) loud=1;
      if (loud) memcpy(AXF+n*ch,SB[loudfam]+((s0+n)%SB_period)*ch,sizeof(short)*ch); else memset(AXF+n*ch,0,sizeof(short)*ch); }
}
static void activity_item(long it,void *ctx){
   long combo=it/g_ax_picks; int r=(int)(it%g_ax_picks);
   int sched=combo%5, dev=(combo/5)%4, dtx=(combo/20)%2, mode=(combo/40)%3, di=(int)(combo/120);
   int fi,ch,ai,bi,mi,lf,q,nfr,f; codec c; char how[300]; long s0=0; int rc=0; (void)ctx;
   if (g_ax_picks>=30){ q=r/30; fi=r%5; ch=1+(r/5)%2; ai=(r/10)%3; }
   else { q=r; fi=(sched+dev+mode+di+r+dtx)%5; ch=1+(dev+di+r+mode)%2; ai=(sched+di+2*r+mode)%3; }
   bi=(sched*2+dev*3+di+mode*5+q*7+fi)%10; mi=(sched+dev+di*2+q+ch)%6; lf=1+(int)((combo+r)%3);
   need_blk(AX_MDB[mi]);
   mk_signals(FS[fi],ch,SIGF,4,1200);
   if (codec_open(&c,0,FS[fi],ch,ai,DU[di])) return;
   MC_INC(c_chains);
   rc|=set_vbr(&c,mode!=0); rc|=set_cvbr(&c,mode==2); rc|=set_br(&c,AX_BR[bi]); rc|=opus_encoder_ctl(c.enc,OPUS_SET_DTX(dtx));
   if (dev==1){ rc|=opus_encoder_ctl(c.enc,OPUS_SET_INBAND_FEC(1)); rc|=opus_encoder_ctl(c.enc,OPUS_SET_PACKET_LOSS_PERC(20)); }
   if (dev==2) rc|=opus_encoder_ctl(c.enc,OPUS_SET_COMPLEXITY(5));
   if (dev==3) rc|=opus_encoder_ctl(c.enc,OPUS_SET_COMPLEXITY(10));
   if (rc){ mc_fail("setup:ctl","%s: a ctl was refused",c.desc); codec_close(&c); return; }
   nfr=(1900*(c.Fs/100)/10 + c.fs-1)/c.fs;
   for(f=0;f<nfr;f++){
      snprintf(how,sizeof how,"DTX %s, deviation: %s; activity schedule '%s' (loud = %s, silence = digital zeros); frame %d of %d",dtx?"on":"off",AX_DEVN[dev],AX_SCHEDN[sched],sig_name[SIGF[lf]],f,nfr);
      ax_frame(lf,s0,c.fs,c.ch,c.Fs,sched);
      if (judge(&c,AXF,AX_MDB[mi],how,NULL)){ codec_close(&c); return; }
      s0+=c.fs;
      if ((f&31)==31) note_state(&c,5);
   }
   note_state(&c,5);
   codec_close(&c);
}
static long g_grid_base;
static void grid_any_item(long it,void *ctx){ if (it<g_grid_base) grid_item(it,ctx); else activity_item(it-g_grid_base,ctx); }
static int g_allapp, g_rotfs;
static void ms_item(long it,void *ctx){
   int mode=it%3, di=(it/3)%9, li=(it/27)%NLAY, fi=(int)(it/(27*NLAY)), bi,ai,si; long fr=0; (void)ctx;
   if (!((g_fsmask>>fi)&1)) return;
   if (g_rotfs && fi!=(li+di+mode)%5) return;      /* reduced grid: one sampling rate per (layout,duration,mode), Latin rotation */
   mk_signals(FS[fi],LAY[li].ch,SIGF,4,1200);
   for(bi=0;bi<NBR;bi++) for(ai=0;ai<3;ai++){
      if (!g_allapp && ai!=(bi+di+li+mode)%3) continue;
      si=(bi+di+li+mode+ai+fi)&3;
      chain(1,FS[fi],li,ai,di,mode,bi,si,&fr);
   }
}

/* ------------------------------------------------------------------ part hist / mshist : all op sequences of length 3, explicit-state */
#define NPAIR 6
static const int BP[NPAIR][2]={{6000,64000},{500,OPUS_BITRATE_MAX},{OPUS_AUTO,24000},{12000,512000},{1000,16000},{OPUS_BITRATE_MAX,OPUS_AUTO}};
static const int MP[NPAIR][2]={{2,1500},{12,40},{253,1276},{1,100},{4000,30},{24,257}};
static int g_nops, g_depth, g_combos, g_combos_dtx, cur_dtx;
static const char *const OPN[6]={"toggle VBR","set bitrate b1","set bitrate b2","set max bytes m1","set max bytes m2","toggle VBR constraint"};
typedef struct { int use_vbr,cvbr,braw,mdb,last_valid,last_sz,last_mdb; } sett;
static unsigned char *IMG[8];
static void get_sett(const codec *c,sett *s,int mdb){ s->use_vbr=c->use_vbr; s->cvbr=c->cvbr; s->braw=c->braw; s->mdb=mdb; s->last_valid=c->last_valid; s->last_sz=c->last_sz; s->last_mdb=c->last_mdb; }
static void put_sett(codec *c,const sett *s){ c->use_vbr=s->use_vbr; c->cvbr=s->cvbr; c->braw=s->braw; c->last_valid=s->last_valid; c->last_sz=s->last_sz; c->last_mdb=s->last_mdb; }
static int dfs(codec *c,int depth,sett s,int bp,int mp,int si,int warm,char *path){
   int op; size_t pl=strlen(path);
   for(op=0;op<g_nops;op++){
      sett t; int mdb=s.mdb, rc=OPUS_OK; char how[400];
      memcpy(c->enc,IMG[depth],c->enc_size); put_sett(c,&s);
      switch(op){
         case 0: rc=set_vbr(c,!c->use_vbr); break;
         case 1: rc=set_br(c,BP[bp][0]); break;
         case 2: rc=set_br(c,BP[bp][1]); break;
         case 3: mdb=MP[mp][0]; c->last_valid=0; break;
         case 4: mdb=MP[mp][1]; c->last_valid=0; break;
         case 5: rc=set_cvbr(c,!c->cvbr); break;
      }
      if (rc!=OPUS_OK){ mc_fail("setup:ctl","%s: op '%s' refused (%d)",c->desc,OPN[op],rc); return 1; }
      snprintf(path+pl,200-pl,"%s%s",pl?" ; ":"",OPN[op]);
      snprintf(how,sizeof how,"signal=%s; %d warm-up frame(s) with library defaults%s and max_data_bytes=%d, then one encode after each op: [%s] with b1=%s b2=%s m1=%d m2=%d",
               sig_name[SIGF[si]],warm,cur_dtx?" + DTX on":"",MP[mp][1],path,brname(BP[bp][0]),brname(BP[bp][1]),MP[mp][0],MP[mp][1]);
      if (judge(c,sig_frame(si,warm+depth,c->fs,c->ch),mdb,how,NULL)){ path[pl]=0; continue; }   /* recorded; this branch ends here, siblings restart from the snapshot */
      get_sett(c,&t,mdb);
      {
         uint64_t h=mc_hash(c->enc,c->enc_size,mc_mix(mc_mix(depth+1,mdb),mc_mix(si,c->du)));
         int fresh=mc_set_add(g_states,h);
         if (!fresh) MC_INC(c_merged);
         if (fresh && depth+1<g_depth){ memcpy(IMG[depth+1],c->enc,c->enc_size); if (dfs(c,depth+1,t,bp,mp,si,warm,path)) return 1; }
      }
      path[pl]=0;
   }
   return 0;
}
static void hist_run(int ms,int Fs,int chl,int ai,int di,int init_cbr,int bp,int mp,int si,int dtx){
   codec c; sett s; int d,warm=2,f; char path[200]; char how[160];
   if (codec_open(&c,ms,Fs,chl,ai,DU[di])) return;
   MC_INC(c_chains);
   for(d=0;d<=g_depth;d++) IMG[d]=malloc(c.enc_size);
   if (init_cbr) set_vbr(&c,0);
   cur_dtx=dtx;
   if (dtx){       /* DTX on; the warm-up covers 220 ms so that (on silence) the DTX onset, 200 ms after the start, falls next to / inside the explored frames */
      if (X_ctl(&c,OPUS_SET_DTX_REQUEST,1)!=OPUS_OK){ mc_fail("setup:ctl","%s: OPUS_SET_DTX refused",c.desc); goto done; }
      warm=(88+c.du-1)/c.du; if (warm<2) warm=2;
   }
   for(f=0;f<warm;f++){ snprintf(how,sizeof how,"signal=%s; warm-up frame %d of %d (defaults%s%s)",sig_name[SIGF[si]],f,warm,init_cbr?" + VBR off":"",dtx?" + DTX on":""); if (judge(&c,sig_frame(si,f,c.fs,c.ch),MP[mp][1],how,NULL)) goto done; }
   memcpy(IMG[0],c.enc,c.enc_size); mc_set_add(g_states,mc_hash(c.enc,c.enc_size,mc_mix(mc_mix(0,MP[mp][1]),mc_mix(si,c.du))));
   get_sett(&c,&s,MP[mp][1]); path[0]=0;
   dfs(&c,0,s,bp,mp,si,warm,path);
done:
   for(d=0;d<=g_depth;d++){ free(IMG[d]); IMG[d]=NULL; }
   codec_close(&c);
}
static void hist_item(long it,void *ctx){
   int init_cbr=it%2, di=(it/2)%9, ai=(it/18)%3, ch=1+(it/54)%2, fi=(int)((it/108)%5), dtx=(int)(it/540), k; (void)ctx;
   if (!((g_fsmask>>fi)&1)) return;
   for(k=0;k<NPAIR;k++) need_blk(MP[k][0]),need_blk(MP[k][1]);
   mk_signals(FS[fi],ch,SIGF,4,1200);
   if (dtx){      /* DTX dimension: items 540..1079 repeat the bases with OPUS_SET_DTX(1); digital silence on even combos, a loud family on odd ones */
      for(k=0;k<g_combos_dtx;k++){ int bp=(k+di+ai)%NPAIR, mp=(k*5+di+fi+init_cbr+ch)%NPAIR; hist_run(0,FS[fi],ch,ai,di,init_cbr,bp,mp,(k&1)?1+(k/2+di)%3:0,1); }
      return;
   }
   for(k=0;k<g_combos;k++){
      /* combos: quick = a Latin rotation of (bitrate pair, max-bytes pair); thorough = the full 6x6 product */
      int bp = g_combos>NPAIR? k/NPAIR : (k+di)%NPAIR, mp = g_combos>NPAIR? k%NPAIR : (k*5+di+ai+fi+init_cbr+ch)%NPAIR;
      int si = 1+(k+di+ai+init_cbr)%3;
      if (g_combos<=NPAIR && k&1) si=0;      /* silence on every other combo in the reduced set */
      hist_run(0,FS[fi],ch,ai,di,init_cbr,bp,mp,si,0);
   }
}
static void mshist_item(long it,void *ctx){
   int init_cbr=it%2, di=(it/2)%9, li=(it/18)%NLAY, fi=(int)(it/(18*NLAY)), k; (void)ctx;
   if (!((g_fsmask>>fi)&1)) return;
   if (g_rotfs && fi!=(li+di+init_cbr)%5) return;
   mk_signals(FS[fi],LAY[li].ch,SIGF,4,1200);
   for(k=0;k<g_combos;k++){
      int bp = g_combos>NPAIR? k/NPAIR : (k+di)%NPAIR, mp = g_combos>NPAIR? k%NPAIR : (k*5+di+li+fi+init_cbr)%NPAIR;
      int si = 1+(k+di+li+init_cbr)%3, ai=(k+di+li)%3;
      hist_run(1,FS[fi],li,ai,di,init_cbr,bp,mp,si,0);
   }
}

/* ------------------------------------------------------------------ part cvbr : long-term average
 * Tolerance (statement: "a small calibrated tolerance").  Oracle: mean packet size over the run <= (B*T/8 + 1) * (1 + CVBR_TOL).
 * The +1 is the TOC byte of every packet, which the constrained-VBR reservoir does not count (DESIGN §4 C05).
 * Calibration on the unchanged tree (this harness, --mode cvbr --calib 1, all 1620 runs of 10 s = the whole explored space):
 * worst mean/(B*T/8+1) = 1.1020 (48 kHz stereo AUDIO, 10 ms, 16 kb/s, log sweep); 16 runs above 1.02, all log-sweep at 8-32 kb/s;
 * speech-like <= 1.0201, white noise <= 1.0004.  Relaxed by >= 2x (G1) per signal family.  Table: props/C05/CALIBRATION.txt. */
static const long CVBR_TOL_PPM_TAB[3]={10000,50000,210000};   /* per signal family {white-noise, speech-like, log-sweep}: worst measured excess
                                                                   0.04 % / 2.01 % / 10.2 %, each relaxed by >= 2x (noise: the design's 1 % floor) */
static const int CV_FS[3]={8000,16000,48000};
static const int CV_DU[5]={1,2,4,8,24};
static const int CV_BR[6]={8000,16000,32000,64000,128000,256000};
static const int CV_SIG[3]={SIG_NOISE,SIG_SPEECH,SIG_SWEEP};
static int g_cv_ms, g_cv_rotsig, g_cv_calib;
static mc_ctr *c_cvbr_worst_ratio;
static void cvbr_item(long it,void *ctx){
   int si=it%3, bi=(it/3)%6, di=(it/18)%5, ai=(it/90)%3, ch=1+(it/270)%2, fi=(int)(it/540);
   codec c; long nfr,f; long long bytes=0; int mdb=1500; double budget,mean; long ratio_ppm; char how[160]; const long CVBR_TOL_PPM=CVBR_TOL_PPM_TAB[it%3]; (void)ctx;
   if (g_cv_rotsig && si!=(bi+di+ai+ch+fi)%3) return;      /* reduced grid: one signal per configuration, Latin rotation */
   mk_signals(CV_FS[fi],ch,CV_SIG,3,3000);
   if (codec_open(&c,0,CV_FS[fi],ch,ai,CV_DU[di])) return;
   MC_INC(c_chains);
   if (set_vbr(&c,1)||set_cvbr(&c,1)||set_br(&c,CV_BR[bi])){ mc_fail("setup:ctl","%s: a rate ctl was refused",c.desc); codec_close(&c); return; }
   nfr = (long)(g_cv_ms*2/5)/CV_DU[di];
   for(f=0;f<nfr;f++){
      int len=0;
      snprintf(how,sizeof how,"signal=%s; frame %ld of a %d ms constrained-VBR run",sig_name[CV_SIG[si]],f,g_cv_ms);
      if (judge(&c,sig_frame(si,f,c.fs,c.ch),mdb,how,&len)){ codec_close(&c); return; }
      bytes+=len;
      if ((f&63)==63) note_state(&c,3);
   }
   budget = (double)CV_BR[bi]*c.fs/(8.0*c.Fs) + 1.0;        /* B*T/8 plus the TOC byte */
   mean = (double)bytes/nfr; ratio_ppm=(long)(mean/budget*1e6);
   MC_INC(c_cvbr_runs); MC_MAX(c_cvbr_worst_ratio,ratio_ppm);
   if (g_cv_calib) { char line[300]; int n=snprintf(line,sizeof line,"@CALIB Fs=%d ch=%d app=%s du=%d br=%d sig=%s nfr=%ld bytes=%lld mean=%.4f raw=%.4f\n",c.Fs,c.ch,APPN[ai],c.du,CV_BR[bi],sig_name[CV_SIG[si]],nfr,bytes,mean,budget-1.0); if(n>0) fwrite(line,1,n,stdout); fflush(stdout); }
   if (mean > budget*(1.0+CVBR_TOL_PPM*1e-6))
      mc_fail("enc:cvbr_average","%s CVBR bitrate=%d signal=%s: %lld bytes in %ld packets over %d ms = %.3f bytes/packet, allowed (B*T/8 + 1 TOC byte)*(1+%.1f%%) = %.3f",
              c.desc,CV_BR[bi],sig_name[CV_SIG[si]],bytes,nfr,g_cv_ms,mean,CVBR_TOL_PPM*1e-4,budget*(1.0+CVBR_TOL_PPM*1e-6));
   else if (ratio_ppm>900000) mc_sample("%s CVBR bitrate=%d signal=%s: %lld bytes / %ld packets over %d ms: mean %.3f vs budget B*T/8+1 = %.3f (ratio %.4f)",c.desc,CV_BR[bi],sig_name[CV_SIG[si]],bytes,nfr,g_cv_ms,mean,budget,mean/budget);
   codec_close(&c);
}

/* ------------------------------------------------------------------ part cvbr, history items: constrained VBR after a preceding history
 * The statement quantifies the CVBR clause over histories of switching too.  Deviation-bounded histories in front of the measured window:
 *   prefix   : none, or 0.4 s (natural) / 0.2 s (forced) of packets in one of the mode classes {SILK-only, hybrid, CELT-only}; the class is
 *              reached "naturally" through OPUS_SET_SIGNAL + bitrate + signal family (or, for CELT, through 5 ms frames alone), or
 *              through the (private) OPUS_SET_FORCE_MODE ctl;
 *   rate-control history : constraint set once at start (CVBR throughout) | CBR during the prefix, OPUS_SET_VBR(1) at the switch |
 *              unconstrained VBR during the prefix, OPUS_SET_VBR_CONSTRAINT(1) at the switch;
 *   window   : 10 s in each of the three mode classes (natural / forced, two (bitrate, frame duration) choices each = 12 "measured
 *              configurations") x signal families {white noise, speech-like, log sweep, dense 40-harmonic chord, clicks}.
 * = 22 prefix histories (none + 7 prefixes x 3) x 12 measured configurations x 5 signals = 1320 histories, x (3 rates x 2 channels x {VOIP,AUDIO}) in thorough,
 * one (rate,channels,application) per history by Latin rotation in quick.  The mode class every packet really has is read from its TOC and
 * the ordered pairs (prefix class reached, window class reached) are counted; the oracle does not depend on the class being reached.
 * Oracle: mean packet size over the window <= (B*T/8 + 1) * (1 + tol[measured configuration][signal]); the table is calibrated on the
 * unchanged tree over ALL histories and all (rate,channels,application) of the thorough space and relaxed >= 2x (floor 1 %), see
 * CALIBRATION.txt. */
#define FORCE_MODE_REQUEST 11002          /* OPUS_SET_FORCE_MODE, src/opus_private.h; values 1000 SILK-only, 1001 hybrid, 1002 CELT-only */
#define FAM_CHORD 100
static const int HS_FS[3]={16000,24000,48000};
static const int HS_APP[2]={0,1};                       /* VOIP, AUDIO */
#define HS_NSIG 5
static const int HS_FAM[6]={SIG_NOISE,SIG_SPEECH,SIG_SWEEP,FAM_CHORD,SIG_CLICKS,SIG_MULTITONE};   /* 0..4 window signals; 1 and 5 are the prefix signals */
static const char *const HS_FAMN[6]={"white-noise","speech-like","log-sweep","dense-chord(40 harmonics of 220.66 Hz)","clicks","multitone"};
static short *HS[3][2][6]; static int HS_period[3];
static void hs_make(void){
   int fi,ch,k; for(fi=0;fi<3;fi++){ int Fs=HS_FS[fi]; long L; HS_period[fi]=Fs*3; L=HS_period[fi]+5760;
      for(ch=1;ch<=2;ch++) for(k=0;k<6;k++){ short *b=malloc(sizeof(short)*L*ch); long n; HS[fi][ch-1][k]=b;
         if (HS_FAM[k]!=FAM_CHORD){ siggen g; sig_init(&g,HS_FAM[k],Fs,ch,7u+k); sig_gen(&g,b,(int)L); }
         else for(n=0;n<L;n++){ double t=n/(double)Fs,s=0,s2=0; int h; for(h=1;h<=40&&h*221.32<0.45*Fs;h++){ s+=600*sin(2*M_PI*(220.0*h*1.003)*t+h); s2+=600*sin(2*M_PI*(220.0*h*1.003)*t+1.7*h); }
            if(ch==1) b[n]=(short)sig_clip16(s); else { b[2*n]=(short)sig_clip16(s); b[2*n+1]=(short)sig_clip16(s2); } } } }
}
static const short *hs_frame(int fi,int ch,int k,long sample_pos){ return HS[fi][ch-1][k]+(sample_pos%HS_period[fi])*ch; }
/* mode-class settings: {OPUS_SET_SIGNAL value, forced mode (0 = OPUS_AUTO), bitrate, duration in 2.5 ms units} */
typedef struct { int cls, forced, signal, fmode, br, du; } mset;
static const mset HS_WIN[12]={
   {0,0,OPUS_SIGNAL_VOICE,0,12000,8},{0,0,OPUS_SIGNAL_VOICE,0,16000,24},   {0,1,OPUS_AUTO,1000,16000,8},{0,1,OPUS_AUTO,1000,24000,16},
   {1,0,OPUS_SIGNAL_VOICE,0,28000,8},{1,0,OPUS_SIGNAL_VOICE,0,32000,4},    {1,1,OPUS_AUTO,1001,32000,8},{1,1,OPUS_AUTO,1001,48000,4},
   {2,0,OPUS_SIGNAL_MUSIC,0,64000,8},{2,0,OPUS_SIGNAL_MUSIC,0,32000,4},    {2,1,OPUS_AUTO,1002,48000,8},{2,1,OPUS_AUTO,1002,96000,2} };
static const mset HS_PRE[7]={
   {0,0,OPUS_SIGNAL_VOICE,0,12000,8},{0,1,OPUS_AUTO,1000,24000,8}, {1,0,OPUS_SIGNAL_VOICE,0,28000,8},{1,1,OPUS_AUTO,1001,32000,8}, {2,0,OPUS_SIGNAL_MUSIC,0,64000,8},{2,1,OPUS_AUTO,1002,64000,8},
   {2,0,OPUS_AUTO,0,32000,2} /* CELT-only reached through the frame duration alone (5 ms) */ };
static const char *const CLSN[4]={"SILK-only","hybrid","CELT-only","none"};
static const char *const HISTN[3]={"VBR constraint set once at start","CBR during the prefix, OPUS_SET_VBR(1) at the switch","unconstrained VBR during the prefix, OPUS_SET_VBR_CONSTRAINT(1) at the switch"};
#include "c05_cvbr_tol.h"      /* static const long HS_TOL_PPM[12][5], generated from the calibration run */
static mc_ctr *c_pair[4][4], *c_hs_runs, *c_hs_unreached_pre, *c_hs_unreached_win;
static int g_hs_rot, g_hs_on;
#define HS_NPH 22          /* none + 7 prefixes x 3 rate-control histories */
#define HS_NHIST ((long)HS_NPH*12*5)
static int apply_mset(codec *c,const mset *m){
   int rc=0; rc|=opus_encoder_ctl(c->enc,OPUS_SET_SIGNAL(m->signal)); rc|=opus_encoder_ctl(c->enc,FORCE_MODE_REQUEST,m->forced?m->fmode:OPUS_AUTO); rc|=set_br(c,m->br);
   c->du=m->du; c->fs=c->Fs/400*m->du; return rc;
}
static int majority_cls(const long *n){ long t=n[0]+n[1]+n[2]; int k; if(!t) return 3; for(k=0;k<3;k++) if(n[k]*10>=t*9) return k; return 3; }
static void cvbr_hist_item(long h,void *ctx){
   int m=(int)(h%12), sg=(int)((h/12)%HS_NSIG), ph=(int)((h/60)%HS_NPH), cfg=(int)(h/HS_NHIST);
   int fi=cfg%3, ch=1+(cfg/3)%2, ai=HS_APP[(cfg/6)%2], pre=-1, H=0, mdb=1500, k, len; long pos=0,f,nfr,npre=0,ncls[3]={0,0,0},wcls[3]={0,0,0};
   long long bytes=0; double budget,mean; long ratio_ppm,tol; codec c; char how[420],hist[260]; const mset *W=&HS_WIN[m]; unsigned char *out; (void)ctx;
   if (g_hs_rot && cfg!=(m+sg*5+ph*7)%12) return;         /* quick: one (rate,channels,application) per history, Latin rotation */
   if (ph>0){ pre=(ph-1)/3; H=(ph-1)%3; }
   if (codec_open(&c,0,HS_FS[fi],ch,ai,pre>=0?HS_PRE[pre].du:W->du)) return;
   MC_INC(c_chains); out=BLK[mdb];
   snprintf(c.desc,sizeof c.desc,"OpusEncoder Fs=%d ch=%d app=%s",c.Fs,c.ch,APPN[ai]);
   /* rate-control history, part 1 */
   if (set_vbr(&c,!(pre>=0&&H==1)) || set_cvbr(&c,!(pre>=0&&H==2))){ mc_fail("setup:ctl","%s: a rate ctl was refused",c.desc); codec_close(&c); return; }
   if (pre>=0){
      const mset *P=&HS_PRE[pre]; int psig = P->cls==2?5:1;
      if (apply_mset(&c,P)){ mc_fail("setup:ctl","%s: a prefix ctl was refused",c.desc); codec_close(&c); return; }
      npre = (P->forced?80:160)/P->du;                       /* 0.2 s forced, 0.4 s natural */
      snprintf(hist,sizeof hist,"prefix: %ld x %g ms of %s, %s %s (%s, OPUS_SET_SIGNAL=%d, bitrate %d); %s",npre,P->du*2.5,HS_FAMN[psig],P->forced?"forced":"natural",CLSN[P->cls],P->forced?"OPUS_SET_FORCE_MODE":"no mode ctl",P->signal,P->br,HISTN[H]);
      for(f=0;f<npre;f++){
         snprintf(how,sizeof how,"%s | prefix frame %ld",hist,f);
         if (judge(&c,hs_frame(fi,ch,psig,pos),mdb,how,&len)){ codec_close(&c); return; }
         pos+=c.fs; ncls[rfc_mode(out[0])]++;
      }
      /* rate-control history, part 2: the switch */
      if ((H==1 && set_vbr(&c,1)) || (H==2 && set_cvbr(&c,1))){ mc_fail("setup:ctl","%s: a rate ctl was refused at the switch",c.desc); codec_close(&c); return; }
   } else snprintf(hist,sizeof hist,"no prefix; %s",HISTN[0]);
   if (apply_mset(&c,W)){ mc_fail("setup:ctl","%s: a window ctl was refused",c.desc); codec_close(&c); return; }
   nfr=(long)(g_cv_ms*2/5)/W->du;
   for(f=0;f<nfr;f++){
      snprintf(how,sizeof how,"%s | then %d ms window: %s %s (OPUS_SET_SIGNAL=%d, bitrate %d, %g ms frames), signal %s, frame %ld",hist,g_cv_ms,W->forced?"forced":"natural",CLSN[W->cls],W->signal,W->br,W->du*2.5,HS_FAMN[sg],f);
      if (judge(&c,hs_frame(fi,ch,sg,pos),mdb,how,&len)){ codec_close(&c); return; }
      pos+=c.fs; bytes+=len; wcls[rfc_mode(out[0])]++;
      if ((f&63)==63) note_state(&c,4);
   }
   budget=(double)W->br*c.fs/(8.0*c.Fs)+1.0; mean=(double)bytes/nfr; ratio_ppm=(long)(mean/budget*1e6); tol=HS_TOL_PPM[m][sg];
   MC_INC(c_hs_runs); MC_MAX(c_cvbr_worst_ratio,ratio_ppm);
   { int pc=pre>=0?majority_cls(ncls):3, wc=majority_cls(wcls); MC_INC(c_pair[pre>=0?pc:3][wc]);   /* [3][*] = no prefix or mixed prefix, [*][3] = mixed window */
     if (pre>=0 && pc!=HS_PRE[pre].cls) MC_INC(c_hs_unreached_pre); if (wc!=W->cls) MC_INC(c_hs_unreached_win);
     if (g_cv_calib){ char line[400]; int n=snprintf(line,sizeof line,"@CALIBH m=%d sg=%d ph=%d Fs=%d ch=%d app=%s pre=%ld/%ld/%ld win=%ld/%ld/%ld mean=%.4f raw=%.4f\n",m,sg,ph,c.Fs,c.ch,APPN[ai],ncls[0],ncls[1],ncls[2],wcls[0],wcls[1],wcls[2],mean,budget-1.0); if(n>0) fwrite(line,1,n,stdout); fflush(stdout); }
     if (mean > budget*(1.0+tol*1e-6))
        mc_fail("enc:cvbr_average:after_history","%s: %s | %d ms window %s %s bitrate %d, %g ms frames, signal %s: %lld bytes in %ld packets (SILK/hybrid/CELT = %ld/%ld/%ld; prefix packets %ld/%ld/%ld) = %.3f bytes/packet = %.3f x (B*T/8 + 1 TOC byte); allowed x %.3f",
                c.desc,hist,g_cv_ms,W->forced?"forced":"natural",CLSN[W->cls],W->br,W->du*2.5,HS_FAMN[sg],bytes,nfr,wcls[0],wcls[1],wcls[2],ncls[0],ncls[1],ncls[2],mean,mean/budget,1.0+tol*1e-6);
     else if (pre>=0 && pc!=wc && pc<3 && wc<3) mc_sample("%s: %s | %d ms window %s %s bitrate %d, %g ms frames, signal %s: prefix packets SILK/hybrid/CELT=%ld/%ld/%ld, window %ld/%ld/%ld, mean %.3f bytes = %.4f x (B*T/8+1), allowed x %.3f",
                c.desc,hist,g_cv_ms,W->forced?"forced":"natural",CLSN[W->cls],W->br,W->du*2.5,HS_FAMN[sg],ncls[0],ncls[1],ncls[2],wcls[0],wcls[1],wcls[2],mean,mean/budget,1.0+tol*1e-6);
   }
   codec_close(&c);
}
static void cvbr_any_item(long it,void *ctx){ if (it<1620) cvbr_item(it,ctx); else cvbr_hist_item(it-1620,ctx); }

int main(int argc,char **argv){
   const char *mode; long skipped=0;
   mc_init(argc,argv,"C05","grid");
   mode=mc_arg_s("--mode","grid"); MC.part=mc_arg_s("--part",mode);
   c_eval=mc_counter("evaluations"); c_mixed=mc_counter("packets_with_coded_and_dropped_frames"); c_sizefail=mc_counter("size_clause_failures"); c_trans=mc_counter("transitions");
   c_cbr_exact=mc_counter("cbr_size_exact_checks"); c_cbr_tie=mc_counter("cbr_half_ties"); c_cbr_tie_up=mc_counter("cbr_half_ties_rounded_up");
   c_clip_lo=mc_counter("cbr_clipped_to_minimum"); c_clip_hi=mc_counter("cbr_clipped_to_buffer_or_1276");
   c_max_fill=mc_counter("bitrate_max_fill_checks"); c_auto_const=mc_counter("auto_constancy_checks"); c_empty=mc_counter("cbr_empty_packets_exempt");
   c_toosmall=mc_counter("buffer_too_small_allowed"); c_rfc=mc_counter("rfc_model_accepts"); c_dec=mc_counter("decoder_accepts"); c_vbr_pk=mc_counter("vbr_packets");
   c_bytes=mc_counter("bytes_produced"); c_merged=mc_counter("transitions_into_known_state"); c_chains=mc_counter("encoders_created"); c_cvbr_runs=mc_counter("cvbr_runs"); c_cvbr_worst_ratio=mc_counter("cvbr_worst_mean_over_budget_ppm");
   g_states=mc_set_new(24); g_obs=mc_set_new(16);
   g_fsmask=(int)mc_arg("--fsmask",31); g_rotfs=(int)mc_arg("--rotfs",0); g_redgrid=(int)mc_arg("--redgrid",0); g_split=(int)mc_arg("--split",0);
   if (!strcmp(mode,"grid")||!strcmp(mode,"ms")){
      mk_mdb((int)mc_arg("--fullmdb",0));
      g_nrep=(int)mc_arg("--nrep",1); g_allsig=(int)mc_arg("--allsig",0); g_fresh=(int)mc_arg("--fresh",0); g_allapp=(int)mc_arg("--allapp",0);
      if (!strcmp(mode,"grid")){ int k; g_ax_picks=(int)mc_arg("--activity",4); for(k=0;k<6;k++) need_blk(AX_MDB[k]);
         g_grid_base = (int)mc_arg("--nochain",0)? 0 : (g_split?810L*NBR:810);
         skipped=mc_par(g_grid_base+(g_ax_picks>0?AX_NCOMBO*g_ax_picks:0),grid_any_item,NULL); } else skipped=mc_par(27L*NLAY*5,ms_item,NULL);
   } else if (!strcmp(mode,"hist")||!strcmp(mode,"mshist")){
      int k; for(k=0;k<NPAIR;k++){ need_blk(MP[k][0]); need_blk(MP[k][1]); }
      g_nops=(int)mc_arg("--nops",6); g_depth=(int)mc_arg("--depth",3); g_combos=(int)mc_arg("--combos",3); g_combos_dtx=(int)mc_arg("--dtxcombos",1);
      if (!strcmp(mode,"hist")) skipped=mc_par(g_combos_dtx>0?1080:540,hist_item,NULL); else skipped=mc_par(18L*NLAY*5,mshist_item,NULL);
   } else if (!strcmp(mode,"cvbr")){
      int a,b; char nm[48];
      need_blk(1500); g_cv_ms=(int)mc_arg("--ms",10000); g_cv_rotsig=(int)mc_arg("--rotsig",0); g_cv_calib=(int)mc_arg("--calib",0);
      g_hs_on=(int)mc_arg("--hist",1); g_hs_rot=(int)mc_arg("--rothist",0);
      for(a=0;a<4;a++) for(b=0;b<4;b++){ snprintf(nm,sizeof nm,"cvbr_hist_prefix_%s_window_%s",a<3?CLSN[a]:"none-or-mixed",b<3?CLSN[b]:"mixed"); c_pair[a][b]=mc_counter(nm); }
      c_hs_runs=mc_counter("cvbr_history_runs"); c_hs_unreached_pre=mc_counter("cvbr_history_prefix_class_not_reached"); c_hs_unreached_win=mc_counter("cvbr_history_window_class_not_reached");
      if (g_hs_on) hs_make();
      skipped=mc_par(g_hs_on?1620+HS_NHIST*12:1620,cvbr_any_item,NULL);
   } else { fprintf(stderr,"unknown --mode %s\n",mode); return 2; }
   (void)skipped;
   { mc_ctr *st=mc_counter("states"),*dn=mc_counter("distinct_nontrivial"); *st=mc_set_count(g_states); *dn=mc_set_count(g_obs); }
   return mc_finish();
}
