/* C12 — decoder side: OpusDecoder, OpusMSDecoder, OpusProjectionDecoder.
 * See c12_engine.h for the exploration and the three equivalence checks; this file supplies the objects, the op
 * alphabet (decode / decode_float / PLC / FEC-decode over REAL packets made by the frozen reference encoder, the
 * decoder's setting ctls, OPUS_RESET_STATE) and the observation (return code, PCM digest, getter vector).
 */
#include "c12_engine.h"
#include "corpus.h"

enum { KD_DEC=0, KD_MS=1, KD_PROJ=2 };
static int g_kid;
typedef struct { const char *name; int fs,ch; int streams,coupled; unsigned char mapping[16]; int family; int derive; char namebuf[96]; } dbase;
static dbase DB_DEC[]={
   {"OpusDecoder 48000 Hz stereo",48000,2},
   {"OpusDecoder 16000 Hz mono",16000,1},
   {"OpusDecoder 48000 Hz mono",48000,1},
   {"OpusDecoder 8000 Hz stereo",8000,2},
   {"OpusDecoder 24000 Hz stereo",24000,2},
   {"OpusDecoder 12000 Hz mono",12000,1},
};
static dbase DB_MS[64]={
   {"OpusMSDecoder 48000 Hz 3ch (1 coupled + 1 mono stream)",48000,3,2,1,{0,1,2},0},
   {"OpusMSDecoder 16000 Hz 3ch (1 coupled + 1 mono stream)",16000,3,2,1,{0,1,2},0},
   {"OpusMSDecoder 48000 Hz 6ch surround (4 streams, 2 coupled)",48000,6,4,2,{0,4,1,2,3,5},1},
};
static int N_DB_MS=3;
static dbase DB_PROJ[16]={
   {"OpusProjectionDecoder 48000 Hz 4ch FOA (2 coupled streams)",48000,4,2,2,{0},3},
   {"OpusProjectionDecoder 16000 Hz 4ch FOA (2 coupled streams)",16000,4,2,2,{0},3},
};
static int N_DB_PROJ=2;
/* one decoder base per (mapping family, channel count) pair that encoder creation accepts in the small range; streams / coupled /
 * mapping (and the demixing matrix of the projection decoder) are whatever the frozen reference encoder chooses for that pair */
static void add_layout_bases(void){
   static const int amb[4]={4,6,9,11}; int c,i,f;
   static const int fam[3]={0,1,255}, lo[3]={1,1,1}, hi[3]={2,8,4};
   for(f=0;f<3;f++) for(c=lo[f];c<=hi[f];c++){ dbase *d=&DB_MS[N_DB_MS++]; memset(d,0,sizeof *d); d->fs=(c==3)?16000:48000; d->ch=c; d->family=fam[f]; d->derive=1; }
   for(i=0;i<4;i++){ dbase *d=&DB_MS[N_DB_MS++]; memset(d,0,sizeof *d); d->fs=48000; d->ch=amb[i]; d->family=2; d->derive=1; }
   for(i=0;i<4;i++){ dbase *d=&DB_PROJ[N_DB_PROJ++]; memset(d,0,sizeof *d); d->fs=i==1?24000:48000; d->ch=amb[i]; d->family=3; d->derive=1; }
}
static dbase *DBS; static int NDB;
#define MAXGRP 40
static unsigned char g_demix[MAXGRP][2048]; static opus_int32 g_demix_size[MAXGRP];
static int g_grp[96];                          /* base -> packet group */
static const char *db_name(int b){ return DBS[b].name; }

static size_t d_size(int b){ const dbase *d=&DBS[b];
   if (g_kid==KD_DEC) return (size_t)opus_decoder_get_size(d->ch);
   if (g_kid==KD_PROJ) return (size_t)opus_projection_decoder_get_size(d->ch,d->streams,d->coupled);
   return (size_t)opus_multistream_decoder_get_size(d->streams,d->coupled);
}
static int d_init(void *obj,int b){ const dbase *d=&DBS[b];
   if (g_kid==KD_DEC) return opus_decoder_init(obj,d->fs,d->ch);
   if (g_kid==KD_PROJ) return opus_projection_decoder_init(obj,d->fs,d->ch,d->streams,d->coupled,g_demix[g_grp[b]],g_demix_size[g_grp[b]]);
   return opus_multistream_decoder_init(obj,d->fs,d->ch,d->streams,d->coupled,d->mapping);
}
static void *d_create(int b){ const dbase *d=&DBS[b]; int err=0;
   if (g_kid==KD_DEC) return opus_decoder_create(d->fs,d->ch,&err);
   if (g_kid==KD_PROJ) return opus_projection_decoder_create(d->fs,d->ch,d->streams,d->coupled,g_demix[g_grp[b]],g_demix_size[g_grp[b]],&err);
   return opus_multistream_decoder_create(d->fs,d->ch,d->streams,d->coupled,d->mapping,&err);
}
static void d_destroy(void *o){
   if (g_kid==KD_DEC) opus_decoder_destroy(o); else if (g_kid==KD_PROJ) opus_projection_decoder_destroy(o); else opus_multistream_decoder_destroy(o);
}
static int d_ctl_i(void *o,int req,opus_int32 v){
   if (g_kid==KD_DEC) return opus_decoder_ctl(o,req,v); if (g_kid==KD_PROJ) return opus_projection_decoder_ctl(o,req,v); return opus_multistream_decoder_ctl(o,req,v);
}
static int d_ctl_p(void *o,int req,void *p){
   if (g_kid==KD_DEC) return opus_decoder_ctl(o,req,p); if (g_kid==KD_PROJ) return opus_projection_decoder_ctl(o,req,p); return opus_multistream_decoder_ctl(o,req,p);
}
static int d_ctl_0(void *o,int req){
   if (g_kid==KD_DEC) return opus_decoder_ctl(o,req); if (g_kid==KD_PROJ) return opus_projection_decoder_ctl(o,req); return opus_multistream_decoder_ctl(o,req);
}

/* packet slots: for the plain decoder one table for all bases, for multistream/projection one per layout group */
typedef struct { unsigned char *data; int len; int dur48; char what[80]; } pslot;
#define MAXSLOT 40
static pslot g_pk[MAXGRP][MAXSLOT]; static int g_npk[MAXGRP];
static pslot *slot_put(int grp,int s,const unsigned char *d,int len,int dur48,const char *what){
   pslot *p=&g_pk[grp][s]; p->data=malloc(len?len:1); memcpy(p->data,d,len); C12_DEFINED(p->data,len); p->len=len; p->dur48=dur48; snprintf(p->what,sizeof p->what,"%s",what); if(s>=g_npk[grp]) g_npk[grp]=s+1; return p;
}

/* op: OP_IO a=slot (or -1 for PLC), b=decode_fec, c=format (0 int16, 1 float), d=PLC duration x0.1 ms */
static void d_apply(void *obj,int b,const opdef *op,obs_t *o){
   const dbase *d=&DBS[b];
   if (op->type==OP_IO && op->a>=0 && op->d>0){
      /* macro op (ONE alphabet element): op->d consecutive packets of a steadily voiced SILK stream.  The DFS depth cannot reach "several voiced
         frames, then a loss" with single-packet ops; as one element it is met from every prefix and before every suffix (the PLC / FEC ops are
         separate elements, so each of them runs over its own freshly painted stack garbage). */
      int k,n=0; uint64_t h=77;
      for(k=0;k<op->d;k++){ const pslot *p = k<op->d? &g_pk[g_grp[b]][op->a+k] : NULL; const pslot *p0=&g_pk[g_grp[b]][op->a];
         int fsz=(int)((long)p0->dur48*d->fs/48000); size_t bytes=(size_t)fsz*d->ch*sizeof(short); void *pcm=malloc(bytes?bytes:1);
         n=opus_decode(obj,p?p->data:NULL,p?p->len:0,pcm,fsz,0);
         h=mc_mix(h,(uint64_t)(opus_int32)n); if(n>0){ check_out_init(pcm,(size_t)n*d->ch*sizeof(short),"pcm"); h=mc_mix(h,mc_hash(pcm,(size_t)n*d->ch*sizeof(short),5)); }
         free(pcm); if(n<=0) break; }
      o->ret=n; if(n>0){ o->outlen=n; o->outh=h; }
   } else if (op->type==OP_IO){
      const pslot *p = op->a>=0? &g_pk[g_grp[b]][op->a] : NULL;
      int dur48 = p? p->dur48 : op->d*48/10; int fsz=(int)((long)dur48*d->fs/48000), n; size_t bytes=(size_t)fsz*d->ch*(op->c?sizeof(float):sizeof(short));
      void *pcm=malloc(bytes?bytes:1);                     /* exact-size heap block: ASan redzones on both sides */
      const unsigned char *data=p?p->data:NULL; int len=p?p->len:0;
      if (g_kid==KD_DEC) n= op->c? opus_decode_float(obj,data,len,pcm,fsz,op->b) : opus_decode(obj,data,len,pcm,fsz,op->b);
      else if (g_kid==KD_PROJ) n= op->c? opus_projection_decode_float(obj,data,len,pcm,fsz,op->b) : opus_projection_decode(obj,data,len,pcm,fsz,op->b);
      else n= op->c? opus_multistream_decode_float(obj,data,len,pcm,fsz,op->b) : opus_multistream_decode(obj,data,len,pcm,fsz,op->b);
      o->ret=n; if(n>0){ check_out_init(pcm,(size_t)n*d->ch*(op->c?sizeof(float):sizeof(short)),"pcm"); o->outlen=n; o->outh=mc_hash(pcm,(size_t)n*d->ch*(op->c?sizeof(float):sizeof(short)),5); }
      free(pcm);
   } else if (op->type==OP_SET){ o->ret=d_ctl_i(obj,op->a,op->b); }
   else o->ret=d_ctl_0(obj,OPUS_RESET_STATE);
}
static const int DG_REQ[]={OPUS_GET_BANDWIDTH_REQUEST,OPUS_GET_COMPLEXITY_REQUEST,OPUS_GET_FINAL_RANGE_REQUEST,OPUS_GET_SAMPLE_RATE_REQUEST,OPUS_GET_PITCH_REQUEST,OPUS_GET_GAIN_REQUEST,
   OPUS_GET_LAST_PACKET_DURATION_REQUEST,OPUS_GET_PHASE_INVERSION_DISABLED_REQUEST};
static const char *const DG_NAME[]={"BANDWIDTH","COMPLEXITY","FINAL_RANGE","SAMPLE_RATE","PITCH","GAIN","LAST_PACKET_DURATION","PHASE_INVERSION_DISABLED"};
#define DG_N 8
static void d_getters(void *obj,int b,obs_t *o){
   int i; (void)b;
   for(i=0;i<DG_N;i++){ opus_uint32 v=0x5EEDBEEF; o->gret[i]=d_ctl_p(obj,DG_REQ[i],&v); check_out_init(&v,sizeof v,DG_NAME[i]); o->gval[i]=o->gret[i]==OPUS_OK?v:0; }
}
static kind_t KIND_D={ "decoder",0,db_name,d_size,d_init,d_create,d_destroy,d_apply,d_getters,DG_NAME,DG_N,NULL,2 };

static void add_op(const char *name,int type,int a,int b,int c,int d){ opdef *o=&OPS[NOPS++]; snprintf(o->name,sizeof o->name,"%s",name); o->type=type; o->a=a; o->b=b; o->c=c; o->d=d; }

/* ---- plain decoder: packets from the shared corpus (frozen encoder) */
static corpus CO;
static int find_pkt(const char *stream,int minidx){
   int s,i; for(s=0;s<CO.ns;s++) if(!strcmp(CO.s[s].name,stream)) for(i=CO.s[s].first;i<CO.s[s].first+CO.s[s].n;i++) if(CO.p[i].idx>=minidx && CO.p[i].kind==0) return i;
   fprintf(stderr,"c12: corpus stream '%s' (idx>=%d) not found\n",stream,minidx); exit(2);
}
static int g_nslot;
static int add_pkt(const char *stream,int minidx,const char *label){
   int i=find_pkt(stream,minidx); char w[80]; snprintf(w,sizeof w,"%s #%d, %d bytes, TOC 0x%02x",stream,CO.p[i].idx,CO.p[i].len,CO.p[i].data[0]);
   slot_put(0,g_nslot,CO.p[i].data,CO.p[i].len,CO.p[i].dur48,w);
   { char nm[56]; snprintf(nm,sizeof nm,"decode(%s)",label); add_op(nm,OP_IO,g_nslot,0,0,0); }
   return g_nslot++;
}
/* six consecutive packets (after two warm-up packets) of a steadily voiced harmonic signal coded SILK-only by the frozen encoder */
static void add_voiced_run(int Fs,double f0,int rate,int bw,const char *label){
   int err=0,i,fsz=Fs/50,first=g_nslot; short *pcm=malloc(sizeof(short)*fsz); unsigned char out[1500]; long t=0; char nm[56];
   OpusEncoder *e=ref_opus_encoder_create(Fs,1,OPUS_APPLICATION_VOIP,&err); if(!e){ fprintf(stderr,"c12: ref encoder create failed\n"); exit(2); }
   ref_opus_encoder_ctl(e,OPUS_SET_BITRATE(rate)); ref_opus_encoder_ctl(e,OPUS_SET_BANDWIDTH(bw)); ref_opus_encoder_ctl(e,OPUS_SET_FORCE_MODE(REF_MODE_SILK_ONLY)); ref_opus_encoder_ctl(e,OPUS_SET_SIGNAL(OPUS_SIGNAL_VOICE));
   for(i=0;i<8;i++){ int k,n,h; for(k=0;k<fsz;k++,t++){ double x=0; for(h=1;h<=12&&h*f0<0.45*Fs;h++) x+=sin(2*M_PI*h*f0*t/Fs+0.3*h)/h; pcm[k]=(short)lrint(7000.0*x); }
      n=ref_opus_encode(e,pcm,fsz,out,sizeof out); if(n<=2){ fprintf(stderr,"c12: voiced run: ref encode returned %d\n",n); exit(2); }
      if (i>=2){ char w[80]; snprintf(w,sizeof w,"%s #%d, %d bytes, TOC 0x%02x",label,i,n,out[0]); slot_put(0,g_nslot++,out,n,960,w); } }
   ref_opus_encoder_destroy(e); free(pcm);
   snprintf(nm,sizeof nm,"run(%s x6)",label); add_op(nm,OP_IO,first,0,0,6);
}
static void alphabet_dec(int alpha){
   int lbrr,celt,hyb;
   corpus_build(&CO,0);
   { int i; for(i=0;i<CO.n;i++) C12_DEFINED(CO.p[i].data,CO.p[i].len); }
   NOPS=0; g_nslot=0;
   add_pkt("silk bw0 200ms/10 ch1 r0",3,"SILK NB 20ms mono");
   lbrr=add_pkt("silk wb 20ms fec ch1",4,"SILK WB 20ms mono +LBRR");
   hyb=add_pkt("hybrid bw1 200ms/10 ch2 r0",3,"hybrid FB 20ms stereo");
   celt=add_pkt("celt bw3 200ms/10 ch2 r0",3,"CELT FB 20ms stereo");
   add_pkt("celt bw3 25ms/10 ch1 r0",3,"CELT FB 2.5ms mono");
   add_pkt("silk bw1 600ms/10 ch2 r0",3,"SILK MB 60ms stereo");
   add_pkt("transition silk->celt ch1",4,"transition SILK->CELT #4 mono");
   if (alpha>=0) add_pkt("silk dtx silence ch1",20,"SILK DTX packet");
   if (alpha>=1){
      add_pkt("transition silk->celt ch1",5,"transition SILK->CELT #5 mono");
      add_pkt("transition celt->silk ch2",4,"transition CELT->SILK #4 stereo");
      add_pkt("hybrid 60ms (code3)",1,"hybrid FB 60ms code3 mono");
      add_pkt("silk stereo->mono",4,"SILK stereo->mono #4");
      add_pkt("celt bw1 50ms/10 ch2 r0",3,"CELT WB 5ms stereo");
      add_pkt("silk nb 60ms fec ch2",3,"SILK NB 60ms stereo +LBRR");
   }
   /* pitch at the top of the legal lag range (18 ms: 288 samples at 16 kHz): concealment lets the lag drift upwards from there */
   if (alpha>=0) add_voiced_run(16000,58.0,20000,OPUS_BANDWIDTH_WIDEBAND,"SILK WB voiced f0=58");
   if (alpha>=1) add_voiced_run(16000,110.0,20000,OPUS_BANDWIDTH_WIDEBAND,"SILK WB voiced f0=110");
   add_op("decode_float(hybrid FB 20ms stereo)",OP_IO,hyb,0,1,0);
   if (alpha>=1) add_op("decode_float(CELT FB 20ms stereo)",OP_IO,celt,0,1,0);
   add_op("decode_fec(SILK WB 20ms mono +LBRR)",OP_IO,lbrr,1,0,0);
   if (alpha>=1) add_op("decode_fec(CELT FB 20ms stereo)",OP_IO,celt,1,0,0);
   add_op("PLC(20 ms)",OP_IO,-1,0,0,200);
   if (alpha>=0) add_op("PLC(2.5 ms)",OP_IO,-1,0,0,25);
   if (alpha>=1) add_op("PLC(60 ms)",OP_IO,-1,0,0,600);
   add_op("ctl(GAIN=-1500)",OP_SET,OPUS_SET_GAIN_REQUEST,-1500,0,0);
   if (alpha>=0) add_op("ctl(PHASE_INVERSION_DISABLED=1)",OP_SET,OPUS_SET_PHASE_INVERSION_DISABLED_REQUEST,1,0,0);
   if (alpha>=1) add_op("ctl(COMPLEXITY=7)",OP_SET,OPUS_SET_COMPLEXITY_REQUEST,7,0,0);
   add_op("ctl(OPUS_RESET_STATE)",OP_RESET,0,0,0,0);
}

/* ---- multistream / projection: packets from the frozen multistream / projection encoder, one group per layout */
typedef struct { int app,bitrate,dur_x10,sig,fec,take; const char *label; } mcfg;
static const mcfg MCFG[]={
   {OPUS_APPLICATION_VOIP, 0, 200, SIG_SPEECH, 1, 3, "VOIP low rate 20ms +FEC #3"},
   {OPUS_APPLICATION_VOIP, 0, 200, SIG_SPEECH, 1, 4, "VOIP low rate 20ms +FEC #4"},
   {OPUS_APPLICATION_AUDIO,1, 100, SIG_MULTITONE,0,3, "AUDIO high rate 10ms #3"},
   {OPUS_APPLICATION_AUDIO,2, 600, SIG_SPEECH, 0, 2, "AUDIO mid rate 60ms #2"},
   {OPUS_APPLICATION_RESTRICTED_LOWDELAY,1,25,SIG_NOISE,0,3,"LOWDELAY 2.5ms #3"},
};
#define NMCFG 5
static void make_ms_packets(int grp,dbase *d){
   int c;
   for(c=0;c<NMCFG;c++){ const mcfg *m=&MCFG[c]; int err=0,i,st=0,cp=0,n=0; unsigned char map[256]; siggen g; int fsz=(int)(48000L*m->dur_x10/10000);
      short *pcm=malloc(sizeof(short)*(size_t)fsz*d->ch); static unsigned char out[16000]; char w[80];
      opus_int32 rate = m->bitrate==0? 14000*d->ch : m->bitrate==1? 64000*d->ch : 28000*d->ch;
      OpusMSEncoder *me=NULL; OpusProjectionEncoder *pe=NULL;
      if (g_kid==KD_PROJ){ pe=ref_opus_projection_ambisonics_encoder_create(48000,d->ch,3,&st,&cp,m->app,&err);
         if (pe && d->derive){ d->streams=st; d->coupled=cp; }
         if(!pe||st!=d->streams||cp!=d->coupled){ fprintf(stderr,"c12: ref projection encoder layout mismatch (%d ch)\n",d->ch); exit(2); }
         ref_opus_projection_encoder_ctl(pe,OPUS_SET_BITRATE(rate)); if(m->fec){ ref_opus_projection_encoder_ctl(pe,OPUS_SET_INBAND_FEC(1)); ref_opus_projection_encoder_ctl(pe,OPUS_SET_PACKET_LOSS_PERC(20)); }
         if (c==0){ ref_opus_projection_encoder_ctl(pe,OPUS_PROJECTION_GET_DEMIXING_MATRIX_SIZE(&g_demix_size[grp])); if(g_demix_size[grp]>(int)sizeof g_demix[grp]){ fprintf(stderr,"c12: demix too big\n"); exit(2);} ref_opus_projection_encoder_ctl(pe,OPUS_PROJECTION_GET_DEMIXING_MATRIX(g_demix[grp],g_demix_size[grp])); C12_DEFINED(g_demix[grp],sizeof g_demix[grp]); }
      } else if (d->derive || d->family==1){ me=ref_opus_multistream_surround_encoder_create(48000,d->ch,d->family,&st,&cp,map,m->app,&err);
         C12_DEFINED(map,sizeof map);
         if (me && d->derive){ d->streams=st; d->coupled=cp; memcpy(d->mapping,map,d->ch); }
         if(!me||st!=d->streams||cp!=d->coupled||memcmp(map,d->mapping,d->ch)){ fprintf(stderr,"c12: ref surround layout mismatch (family %d, %d ch)\n",d->family,d->ch); exit(2); }
      } else me=ref_opus_multistream_encoder_create(48000,d->ch,d->streams,d->coupled,d->mapping,m->app,&err);
      if (me){ ref_opus_multistream_encoder_ctl(me,OPUS_SET_BITRATE(rate)); if(m->fec){ ref_opus_multistream_encoder_ctl(me,OPUS_SET_INBAND_FEC(1)); ref_opus_multistream_encoder_ctl(me,OPUS_SET_PACKET_LOSS_PERC(20)); } }
      sig_init(&g,m->sig,48000,d->ch,(uint32_t)(c*5+2));
      for(i=0;i<=m->take;i++){ sig_gen(&g,pcm,fsz); n= pe? ref_opus_projection_encode(pe,pcm,fsz,out,sizeof out) : ref_opus_multistream_encode(me,pcm,fsz,out,sizeof out); if(n<0){ fprintf(stderr,"c12: ref ms encode failed %d\n",n); exit(2);} }
      C12_DEFINED(out,sizeof out);
      snprintf(w,sizeof w,"%s, %d bytes",m->label,n);
      slot_put(grp,c,out,n,m->dur_x10*48/10,w);
      if (pe) ref_opus_projection_encoder_destroy(pe); else ref_opus_multistream_encoder_destroy(me);
      free(pcm);
   }
   if (d->derive){ snprintf(d->namebuf,sizeof d->namebuf,"%s mapping family %d, %d Hz %dch (%d streams, %d coupled)",g_kid==KD_PROJ?"OpusProjectionDecoder":"OpusMSDecoder",d->family,d->fs,d->ch,d->streams,d->coupled); d->name=d->namebuf; }
}
static void alphabet_ms(int alpha){
   int c; char nm[56];
   NOPS=0;
   if (alpha<=-2){ /* minimal alphabet for the creation-path (layout) bases: decode, decode, reset, decode (+ FEC, PLC) */
      snprintf(nm,sizeof nm,"decode(%s)",MCFG[0].label); add_op(nm,OP_IO,0,0,0,0);
      snprintf(nm,sizeof nm,"decode(%s)",MCFG[2].label); add_op(nm,OP_IO,2,0,0,0);
      add_op("decode_fec(VOIP low rate 20ms +FEC #4)",OP_IO,1,1,0,0);
      add_op("PLC(20 ms)",OP_IO,-1,0,0,200);
      add_op("ctl(OPUS_RESET_STATE)",OP_RESET,0,0,0,0);
      return;
   }
   for(c=0;c<NMCFG;c++){ if(alpha<1 && c==4) continue; snprintf(nm,sizeof nm,"decode(%s)",MCFG[c].label); add_op(nm,OP_IO,c,0,0,0); }
   add_op("decode_float(AUDIO high rate 10ms #3)",OP_IO,2,0,1,0);
   add_op("decode_fec(VOIP low rate 20ms +FEC #4)",OP_IO,1,1,0,0);
   add_op("PLC(20 ms)",OP_IO,-1,0,0,200);
   if (alpha>=1) add_op("PLC(10 ms)",OP_IO,-1,0,0,100);
   add_op("ctl(GAIN=-1500)",OP_SET,OPUS_SET_GAIN_REQUEST,-1500,0,0);
   add_op("ctl(PHASE_INVERSION_DISABLED=1)",OP_SET,OPUS_SET_PHASE_INVERSION_DISABLED_REQUEST,1,0,0);
   add_op("ctl(OPUS_RESET_STATE)",OP_RESET,0,0,0,0);
}

int main(int argc,char **argv){
   const char *kind; int alpha,i; const char *bases;
   mc_init(argc,argv,"C12","dec");
   engine_replay_outdir();
   kind=mc_arg_s("--kind","dec"); MC.part=mc_arg_s("--part",kind);
   alpha=(int)mc_arg("--alpha",MC.tier?1:0);
   add_layout_bases();
   if (!strcmp(kind,"dec")){ g_kid=KD_DEC; DBS=DB_DEC; NDB=sizeof DB_DEC/sizeof DB_DEC[0]; KIND_D.name="decoder"; }
   else if (!strcmp(kind,"msdec")){ g_kid=KD_MS; DBS=DB_MS; NDB=N_DB_MS; KIND_D.name="ms_decoder"; }
   else if (!strcmp(kind,"projdec")){ g_kid=KD_PROJ; DBS=DB_PROJ; NDB=N_DB_PROJ; KIND_D.name="projection_decoder"; }
   else { fprintf(stderr,"unknown --kind %s\n",kind); return 2; }
   KIND_D.nbases=NDB; K=&KIND_D;
   bases=mc_arg_s("--bases","0"); engine_parse_bases(bases,NDB);
   if (g_kid==KD_DEC){ alphabet_dec(alpha); for(i=0;i<NDB;i++) g_grp[i]=0; }
   else { int ng=0,k;
      /* layout groups among the SELECTED bases: bases with the same (family, channels, streams, coupled) share packets */
      for(k=0;k<g_nbsel;k++){ int bi=g_bsel[k],j,found=-1;
         for(j=0;j<k;j++){ int bj=g_bsel[j]; if(DBS[bj].ch==DBS[bi].ch&&DBS[bj].family==DBS[bi].family&&(DBS[bi].derive||(DBS[bj].streams==DBS[bi].streams&&DBS[bj].coupled==DBS[bi].coupled))&&DBS[bj].derive==DBS[bi].derive) found=bj; }
         if(found>=0){ g_grp[bi]=g_grp[found]; if(DBS[bi].derive){ DBS[bi].streams=DBS[found].streams; DBS[bi].coupled=DBS[found].coupled; memcpy(DBS[bi].mapping,DBS[found].mapping,16); } }
         else { if(ng>=MAXGRP){ fprintf(stderr,"c12: too many layout groups\n"); return 2; } g_grp[bi]=ng; make_ms_packets(ng,&DBS[bi]); ng++; } }
      alphabet_ms(alpha);
   }
   for(i=0;i<g_npk[0];i++) mc_info("packet slot %d (group 0): %s",i,g_pk[0][i].what);
   return engine_main();
}
