/* C12 — encoder side: OpusEncoder, OpusMSEncoder (plain + surround), OpusProjectionEncoder.
 * See c12_engine.h for the exploration and the three equivalence checks; this file supplies the objects,
 * the op alphabet (encode calls over 4 signal families x 3 durations, setting ctls that live before
 * OPUS_ENCODER_RESET_START, OPUS_RESET_STATE) and the observation (return code, packet digest, getter vector).
 */
#include "c12_engine.h"
#include "signals.h"

/* from c12_layout.c (white-box, used ONLY to name the cause of a reset failure in its signature) */
extern const int c12_off_lbrr_coded, c12_off_voice_ratio, c12_off_force_channels;

enum { KE_ENC=0, KE_MS=1, KE_PROJ=2 };
static int g_kid;
typedef struct { const char *name; int fs,ch,app; int surround_family; int streams,coupled; unsigned char mapping[8]; char namebuf[96]; } ebase;
#define VOIP OPUS_APPLICATION_VOIP
#define AUDIO OPUS_APPLICATION_AUDIO
#define RLD OPUS_APPLICATION_RESTRICTED_LOWDELAY
static ebase EB_ENC[]={
   {"OpusEncoder 48000 Hz stereo AUDIO",48000,2,AUDIO},
   {"OpusEncoder 16000 Hz mono VOIP",16000,1,VOIP},
   {"OpusEncoder 48000 Hz mono VOIP",48000,1,VOIP},
   {"OpusEncoder 48000 Hz stereo RESTRICTED_LOWDELAY",48000,2,RLD},
   {"OpusEncoder 24000 Hz stereo VOIP",24000,2,VOIP},
   {"OpusEncoder 8000 Hz mono AUDIO",8000,1,AUDIO},
};
static ebase EB_MS[64]={
   {"OpusMSEncoder 48000 Hz 3ch (1 coupled + 1 mono stream) AUDIO",48000,3,AUDIO,-1,2,1,{0,1,2}},
   {"OpusMSEncoder 16000 Hz 3ch (1 coupled + 1 mono stream) VOIP",16000,3,VOIP,-1,2,1,{0,1,2}},
   {"OpusMSEncoder surround family 1, 48000 Hz 6ch (5.1) AUDIO",48000,6,AUDIO,1},
   {"OpusMSEncoder ambisonics family 2, 48000 Hz 4ch AUDIO",48000,4,AUDIO,2},
};
static int N_EB_MS=4;
static ebase EB_PROJ[16]={
   {"OpusProjectionEncoder family 3, 48000 Hz 4ch (FOA) AUDIO",48000,4,AUDIO,3},
   {"OpusProjectionEncoder family 3, 16000 Hz 4ch (FOA) VOIP",16000,4,VOIP,3},
};
static int N_EB_PROJ=2;
/* every (mapping family, channel count) pair the creation functions accept in the small range: the decision structure of
 * opus_multistream_surround_encoder_{get_size,init,create} (family 0: 1-2 ch; family 1: 1-8 ch; family 255: 1-4 ch;
 * ambisonics family 2: 4,6,9,11 ch) and of opus_projection_ambisonics_encoder_* (family 3: 4,6,9,11 ch) */
static void add_layout_bases(void){
   static const int amb[4]={4,6,9,11}; int c,i;
   for(c=1;c<=2;c++){ ebase *e=&EB_MS[N_EB_MS++]; memset(e,0,sizeof *e); e->fs=48000; e->ch=c; e->app=AUDIO; e->surround_family=0; snprintf(e->namebuf,sizeof e->namebuf,"OpusMSEncoder surround_encoder family 0, 48000 Hz %dch AUDIO",c); e->name=e->namebuf; }
   for(c=1;c<=8;c++){ ebase *e=&EB_MS[N_EB_MS++]; memset(e,0,sizeof *e); e->fs=48000; e->ch=c; e->app=(c&1)?AUDIO:VOIP; e->surround_family=1; snprintf(e->namebuf,sizeof e->namebuf,"OpusMSEncoder surround_encoder family 1, 48000 Hz %dch %s",c,(c&1)?"AUDIO":"VOIP"); e->name=e->namebuf; }
   for(c=1;c<=4;c++){ ebase *e=&EB_MS[N_EB_MS++]; memset(e,0,sizeof *e); e->fs=c==3?16000:48000; e->ch=c; e->app=AUDIO; e->surround_family=255; snprintf(e->namebuf,sizeof e->namebuf,"OpusMSEncoder surround_encoder family 255, %d Hz %dch AUDIO",e->fs,c); e->name=e->namebuf; }
   for(i=0;i<4;i++){ ebase *e=&EB_MS[N_EB_MS++]; memset(e,0,sizeof *e); e->fs=48000; e->ch=amb[i]; e->app=AUDIO; e->surround_family=2; snprintf(e->namebuf,sizeof e->namebuf,"OpusMSEncoder surround_encoder family 2 (ambisonics), 48000 Hz %dch AUDIO",amb[i]); e->name=e->namebuf; }
   for(i=0;i<4;i++){ ebase *e=&EB_PROJ[N_EB_PROJ++]; memset(e,0,sizeof *e); e->fs=48000; e->ch=amb[i]; e->app=AUDIO; e->surround_family=3; snprintf(e->namebuf,sizeof e->namebuf,"OpusProjectionEncoder family 3, 48000 Hz %dch AUDIO",amb[i]); e->name=e->namebuf; }
}
static ebase *EB; static int NEB;
static const char *eb_name(int b){ return EB[b].name; }

static size_t e_size(int b){ const ebase *e=&EB[b];
   if (g_kid==KE_ENC) return (size_t)opus_encoder_get_size(e->ch);
   if (g_kid==KE_PROJ) return (size_t)opus_projection_ambisonics_encoder_get_size(e->ch,e->surround_family);
   if (e->surround_family!=-1) return (size_t)opus_multistream_surround_encoder_get_size(e->ch,e->surround_family);
   return (size_t)opus_multistream_encoder_get_size(e->streams,e->coupled);
}
static int e_init(void *obj,int b){ const ebase *e=&EB[b]; int st,cp; unsigned char map[256];
   if (g_kid==KE_ENC) return opus_encoder_init(obj,e->fs,e->ch,e->app);
   if (g_kid==KE_PROJ) return opus_projection_ambisonics_encoder_init(obj,e->fs,e->ch,e->surround_family,&st,&cp,e->app);
   if (e->surround_family!=-1) return opus_multistream_surround_encoder_init(obj,e->fs,e->ch,e->surround_family,&st,&cp,map,e->app);
   return opus_multistream_encoder_init(obj,e->fs,e->ch,e->streams,e->coupled,e->mapping,e->app);
}
static void *e_create(int b){ const ebase *e=&EB[b]; int st,cp,err=0; unsigned char map[256];
   if (g_kid==KE_ENC) return opus_encoder_create(e->fs,e->ch,e->app,&err);
   if (g_kid==KE_PROJ) return opus_projection_ambisonics_encoder_create(e->fs,e->ch,e->surround_family,&st,&cp,e->app,&err);
   if (e->surround_family!=-1) return opus_multistream_surround_encoder_create(e->fs,e->ch,e->surround_family,&st,&cp,map,e->app,&err);
   return opus_multistream_encoder_create(e->fs,e->ch,e->streams,e->coupled,e->mapping,e->app,&err);
}
static void e_destroy(void *o){
   if (g_kid==KE_ENC) opus_encoder_destroy(o); else if (g_kid==KE_PROJ) opus_projection_encoder_destroy(o); else opus_multistream_encoder_destroy(o);
}
static int e_ctl_i(void *o,int req,opus_int32 v){
   if (g_kid==KE_ENC) return opus_encoder_ctl(o,req,v); if (g_kid==KE_PROJ) return opus_projection_encoder_ctl(o,req,v); return opus_multistream_encoder_ctl(o,req,v);
}
static int e_ctl_p(void *o,int req,void *p){
   if (g_kid==KE_ENC) return opus_encoder_ctl(o,req,p); if (g_kid==KE_PROJ) return opus_projection_encoder_ctl(o,req,p); return opus_multistream_encoder_ctl(o,req,p);
}
static int e_ctl_0(void *o,int req){
   if (g_kid==KE_ENC) return opus_encoder_ctl(o,req); if (g_kid==KE_PROJ) return opus_projection_encoder_ctl(o,req); return opus_multistream_encoder_ctl(o,req);
}

/* PCM of every encode op, per base (fixed content: an op is a pure function of (state, op)) */
static short *g_pcm[64][MAXOPS];
static unsigned char *g_out; static int g_outcap;
static void e_apply(void *obj,int b,const opdef *op,obs_t *o){
   const ebase *e=&EB[b];
   if (op->type==OP_IO){
      int fsz=(int)((long)e->fs*op->b/10000), n; int idx=(int)(op-OPS);
      unsigned char *out=malloc(g_outcap);                 /* exact-size heap block: ASan redzones on both sides */
      int rep=op->c>1?op->c:1, k; uint64_t hh=0; int tot=0;      /* op->c > 1: a RUN of that many identical frames (one alphabet element, e.g. 240 ms of digital silence) */
      for(k=0;k<rep;k++){
         if (g_kid==KE_ENC) n=opus_encode(obj,g_pcm[b][idx],fsz,out,g_outcap);
         else if (g_kid==KE_PROJ) n=opus_projection_encode(obj,g_pcm[b][idx],fsz,out,g_outcap);
         else n=opus_multistream_encode(obj,g_pcm[b][idx],fsz,out,g_outcap);
         if(n<=0) break;
         check_out_init(out,n,"packet"); tot+=n; hh= rep>1? mc_mix(hh,mc_hash(out,n,5+k)) : mc_hash(out,n,5); }
      o->ret=n; if(n>0){ o->outlen=tot; o->outh=hh; }
      free(out);
   } else if (op->type==OP_SET){
      int r=e_ctl_i(obj,op->a,op->b); if (r==OPUS_OK && op->c) r=e_ctl_i(obj,op->c,op->d); o->ret=r;
   } else o->ret=e_ctl_0(obj,OPUS_RESET_STATE);
}
static const int EG_REQ[]={OPUS_GET_APPLICATION_REQUEST,OPUS_GET_BITRATE_REQUEST,OPUS_GET_FORCE_CHANNELS_REQUEST,OPUS_GET_MAX_BANDWIDTH_REQUEST,OPUS_GET_BANDWIDTH_REQUEST,
   OPUS_GET_DTX_REQUEST,OPUS_GET_COMPLEXITY_REQUEST,OPUS_GET_INBAND_FEC_REQUEST,OPUS_GET_PACKET_LOSS_PERC_REQUEST,OPUS_GET_VBR_REQUEST,OPUS_GET_VBR_CONSTRAINT_REQUEST,
   OPUS_GET_SIGNAL_REQUEST,OPUS_GET_LOOKAHEAD_REQUEST,OPUS_GET_SAMPLE_RATE_REQUEST,OPUS_GET_FINAL_RANGE_REQUEST,OPUS_GET_LSB_DEPTH_REQUEST,OPUS_GET_EXPERT_FRAME_DURATION_REQUEST,
   OPUS_GET_PREDICTION_DISABLED_REQUEST,OPUS_GET_PHASE_INVERSION_DISABLED_REQUEST,OPUS_GET_IN_DTX_REQUEST};
static const char *const EG_NAME[]={"APPLICATION","BITRATE","FORCE_CHANNELS","MAX_BANDWIDTH","BANDWIDTH","DTX","COMPLEXITY","INBAND_FEC","PACKET_LOSS_PERC","VBR","VBR_CONSTRAINT",
   "SIGNAL","LOOKAHEAD","SAMPLE_RATE","FINAL_RANGE","LSB_DEPTH","EXPERT_FRAME_DURATION","PREDICTION_DISABLED","PHASE_INVERSION_DISABLED","IN_DTX"};
#define EG_N 20
static void e_getters(void *obj,int b,obs_t *o){
   int i; (void)b;
   for(i=0;i<EG_N;i++){ opus_uint32 v=0x5EEDBEEF; o->gret[i]=e_ctl_p(obj,EG_REQ[i],&v); check_out_init(&v,sizeof v,EG_NAME[i]); o->gval[i]=o->gret[i]==OPUS_OK?v:0; }
}

/* sub-encoder offsets inside an object (for the white-box cause naming) */
static int g_nsub[64]; static long g_suboff[64][16];
static void find_subs(int b){
   size_t n=e_size(b); unsigned char *blk=malloc(n); int s;
   if (e_init(blk,b)!=OPUS_OK){ fprintf(stderr,"c12: init failed for %s\n",EB[b].name); exit(2); }
   if (g_kid==KE_ENC){ g_nsub[b]=1; g_suboff[b][0]=0; }
   else for(s=0;s<16;s++){ OpusEncoder *e=NULL; int r= g_kid==KE_PROJ? opus_projection_encoder_ctl((OpusProjectionEncoder*)blk,OPUS_MULTISTREAM_GET_ENCODER_STATE(s,&e)) : opus_multistream_encoder_ctl((OpusMSEncoder*)blk,OPUS_MULTISTREAM_GET_ENCODER_STATE(s,&e));
      if (r!=OPUS_OK||!e) break; g_suboff[b][s]=(long)((unsigned char*)e-blk); g_nsub[b]=s+1; }
   free(blk);
}
/* Counterfactual naming of a reset failure: if copying ONLY the named field(s) from the fresh image into the reset image
 * makes the whole suffix indistinguishable from the fresh object (apart from getter components that were already stale right
 * after the reset and are reported on their own), that field is the cause.  Oracle unaffected. */
static const char *e_classify(int b,const unsigned char *rimg,const unsigned char *fimg,const int *path,int np,const obs_t *fobs,uint64_t stale){
   /* candidate fields, tried as single fields first, then pairs, then all three: the signature names the smallest repairing set */
   static const char *const names[8]={NULL,"LBRR_coded","voice_ratio","LBRR_coded+voice_ratio","force_channels","LBRR_coded+force_channels","voice_ratio+force_channels","LBRR_coded+voice_ratio+force_channels"};
   static const int order[7]={1,2,4,3,5,6,7};
   int k; unsigned char *img=malloc(X.n); const char *res=NULL;
   /* the force_channels getter is expected to become equal once that field is repaired, so it must not be excused as "stale" */
   for(k=0;k<7&&!res;k++){ int fix=order[k],s,i,same=1; uint64_t excuse=stale;
      if (fix&4) excuse&=~(4ULL<<2);      /* getter index 2 = FORCE_CHANNELS */
      memcpy(img,rimg,X.n);
      for(s=0;s<g_nsub[b];s++){ long so=g_suboff[b][s];
         if (fix&1) memcpy(img+so+c12_off_lbrr_coded,fimg+so+c12_off_lbrr_coded,sizeof(int));
         if (fix&2) memcpy(img+so+c12_off_voice_ratio,fimg+so+c12_off_voice_ratio,sizeof(int));
         if (fix&4) memcpy(img+so+c12_off_force_channels,fimg+so+c12_off_force_channels,sizeof(int)); }
      for(i=0;i<np&&same;i++){ obs_t o; run_on(&X.A,i==0?img:NULL,path[i],&o,NULL,0x11); if (obs_diff(&o,&fobs[i])&~excuse) same=0; }
      if (same) res=names[fix];
   }
   free(img); return res;
}

static kind_t KIND_E={ "encoder",0,eb_name,e_size,e_init,e_create,e_destroy,e_apply,e_getters,EG_NAME,EG_N,e_classify,14 };

static void add_op(const char *name,int type,int a,int b,int c,int d){ opdef *o=&OPS[NOPS++]; snprintf(o->name,sizeof o->name,"%s",name); o->type=type; o->a=a; o->b=b; o->c=c; o->d=d; }
static void add_enc(int fam,int dur_x10){ char nm[56]; snprintf(nm,sizeof nm,"encode(%s,%g ms)",sig_name[fam],dur_x10/10.0); add_op(nm,OP_IO,fam,dur_x10,0,0); }

int main(int argc,char **argv){
   const char *kind; int alpha,i,b; const char *bases;
   mc_init(argc,argv,"C12","enc");
   engine_replay_outdir();
   add_layout_bases();
   kind=mc_arg_s("--kind","enc"); MC.part=mc_arg_s("--part",kind);
   alpha=(int)mc_arg("--alpha",MC.tier?1:0);
   if (!strcmp(kind,"enc")){ g_kid=KE_ENC; EB=EB_ENC; NEB=sizeof EB_ENC/sizeof EB_ENC[0]; KIND_E.name="encoder"; }
   else if (!strcmp(kind,"msenc")){ g_kid=KE_MS; EB=EB_MS; NEB=N_EB_MS; KIND_E.name="ms_encoder"; }
   else if (!strcmp(kind,"projenc")){ g_kid=KE_PROJ; EB=EB_PROJ; NEB=N_EB_PROJ; KIND_E.name="projection_encoder"; }
   else { fprintf(stderr,"unknown --kind %s\n",kind); return 2; }
   KIND_E.nbases=NEB; K=&KIND_E;
   bases=mc_arg_s("--bases","0"); engine_parse_bases(bases,NEB);

   /* ---- alphabet ---- */
   NOPS=0;
   add_enc(SIG_SPEECH,200);                                  /* op 0 = default first op of the item grid */
   add_enc(SIG_SILENCE,200);
   add_enc(SIG_NOISE,100);
   add_enc(SIG_MULTITONE,200);
   add_enc(SIG_SPEECH,600);
   if (alpha>=1){ add_enc(SIG_SILENCE,100); add_enc(SIG_SILENCE,600); add_enc(SIG_NOISE,200); add_enc(SIG_NOISE,600); add_enc(SIG_MULTITONE,100); add_enc(SIG_MULTITONE,600); add_enc(SIG_SPEECH,100); }
   else if (alpha==0) add_enc(SIG_MULTITONE,100);
   /* settings stored before OPUS_ENCODER_RESET_START (they must survive a reset and be what "same settings" means) */
   add_op("ctl(INBAND_FEC=1,PACKET_LOSS_PERC=15)",OP_SET,OPUS_SET_INBAND_FEC_REQUEST,1,OPUS_SET_PACKET_LOSS_PERC_REQUEST,15);
   add_op("ctl(BITRATE=18000)",OP_SET,OPUS_SET_BITRATE_REQUEST,(int)mc_arg("--rate-lo",18000),0,0);   /* inside the FEC hysteresis band of the speech bases */
   add_op("ctl(BITRATE=48000)",OP_SET,OPUS_SET_BITRATE_REQUEST,(int)mc_arg("--rate-hi",48000),0,0);
   add_op("ctl(DTX=1)",OP_SET,OPUS_SET_DTX_REQUEST,1,0,0);
   add_op("ctl(FORCE_CHANNELS=1)",OP_SET,OPUS_SET_FORCE_CHANNELS_REQUEST,1,0,0);
   add_op("ctl(VBR=0)",OP_SET,OPUS_SET_VBR_REQUEST,0,0,0);
   add_op("ctl(COMPLEXITY=3)",OP_SET,OPUS_SET_COMPLEXITY_REQUEST,3,0,0);
   add_op("ctl(FORCE_MODE=CELT_ONLY)",OP_SET,OPUS_SET_FORCE_MODE_REQUEST,1002,0,0);
   add_op("ctl(SIGNAL=VOICE)",OP_SET,OPUS_SET_SIGNAL_REQUEST,OPUS_SIGNAL_VOICE,0,0);
   if (alpha>=1){
      add_op("ctl(BANDWIDTH=WIDEBAND)",OP_SET,OPUS_SET_BANDWIDTH_REQUEST,OPUS_BANDWIDTH_WIDEBAND,0,0);
      add_op("ctl(FORCE_MODE=SILK_ONLY)",OP_SET,OPUS_SET_FORCE_MODE_REQUEST,1000,0,0);
      add_op("ctl(MAX_BANDWIDTH=NARROWBAND)",OP_SET,OPUS_SET_MAX_BANDWIDTH_REQUEST,OPUS_BANDWIDTH_NARROWBAND,0,0);
      add_op("ctl(EXPERT_FRAME_DURATION=10ms)",OP_SET,OPUS_SET_EXPERT_FRAME_DURATION_REQUEST,OPUS_FRAMESIZE_10_MS,0,0);
      add_op("ctl(PREDICTION_DISABLED=1)",OP_SET,OPUS_SET_PREDICTION_DISABLED_REQUEST,1,0,0);
      add_op("ctl(PHASE_INVERSION_DISABLED=1)",OP_SET,OPUS_SET_PHASE_INVERSION_DISABLED_REQUEST,1,0,0);
      add_op("ctl(LSB_DEPTH=12)",OP_SET,OPUS_SET_LSB_DEPTH_REQUEST,12,0,0);
      add_op("ctl(VBR_CONSTRAINT=0)",OP_SET,OPUS_SET_VBR_CONSTRAINT_REQUEST,0,0,0);
   }
   if (alpha>=0){ char nm[64]; snprintf(nm,sizeof nm,"encode(silence,12 x 20 ms)"); add_op(nm,OP_IO,SIG_SILENCE,200,12,0); }   /* long enough for every hangover / no-activity counter to run out */
   add_op("ctl(OPUS_RESET_STATE)",OP_RESET,0,0,0,0);
   if (alpha<0){ /* tiny alphabet for the deepest bound */
      NOPS=0; add_enc(SIG_SPEECH,200); add_enc(SIG_SILENCE,200); add_enc(SIG_MULTITONE,100); add_enc(SIG_NOISE,600);
      add_op("ctl(INBAND_FEC=1,PACKET_LOSS_PERC=15)",OP_SET,OPUS_SET_INBAND_FEC_REQUEST,1,OPUS_SET_PACKET_LOSS_PERC_REQUEST,15);
      add_op("ctl(BITRATE=18000)",OP_SET,OPUS_SET_BITRATE_REQUEST,(int)mc_arg("--rate-lo",18000),0,0);
      add_op("ctl(COMPLEXITY=3)",OP_SET,OPUS_SET_COMPLEXITY_REQUEST,3,0,0);
      add_op("ctl(FORCE_MODE=CELT_ONLY)",OP_SET,OPUS_SET_FORCE_MODE_REQUEST,1002,0,0);
      add_op("ctl(OPUS_RESET_STATE)",OP_RESET,0,0,0,0);
   }
   if (alpha<=-2){ /* minimal alphabet for the creation-path (layout) bases: 1-2 encodes, reset, encode */
      NOPS=0; add_enc(SIG_SPEECH,200); add_enc(SIG_NOISE,100);
      add_op("ctl(BITRATE=18000)",OP_SET,OPUS_SET_BITRATE_REQUEST,(int)mc_arg("--rate-lo",18000),0,0);
      add_op("ctl(OPUS_RESET_STATE)",OP_RESET,0,0,0,0);
   }
   /* fix up the names of the bitrate ops if overridden */
   for(i=0;i<NOPS;i++) if(OPS[i].type==OP_SET&&OPS[i].a==OPUS_SET_BITRATE_REQUEST) snprintf(OPS[i].name,sizeof OPS[i].name,"ctl(BITRATE=%d)",OPS[i].b);

   g_outcap = g_kid==KE_ENC?1500:16000;
   for(i=0;i<g_nbsel;i++){ int op; b=g_bsel[i]; find_subs(b);
      for(op=0;op<NOPS;op++) if(OPS[op].type==OP_IO){ siggen g; int fsz=(int)((long)EB[b].fs*OPS[op].b/10000), skip=EB[b].fs/4; short *tmp=malloc(sizeof(short)*(size_t)(skip+fsz)*EB[b].ch);
         sig_init(&g,OPS[op].a,EB[b].fs,EB[b].ch,(uint32_t)(OPS[op].a*7+3)); sig_gen(&g,tmp,skip+fsz);
         g_pcm[b][op]=malloc(sizeof(short)*(size_t)fsz*EB[b].ch); memcpy(g_pcm[b][op],tmp+(size_t)skip*EB[b].ch,sizeof(short)*(size_t)fsz*EB[b].ch); free(tmp); }
   }
   return engine_main();
}
