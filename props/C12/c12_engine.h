/* c12_engine.h — explicit-state engine shared by the C12 harness parts (c12_enc.c, c12_dec.c).
 *
 * Property C12: codec state is deterministic, freely copyable (memcpy of *_get_size() bytes) and
 * reset-equivalent.  The engine explores the REAL objects as flat byte images:
 *
 *   state   = the *_get_size() bytes of one object            (hash of the image = visited-set key)
 *   op      = one entry of the kind's alphabet (encode/decode/PLC/FEC call, setting ctl, OPUS_RESET_STATE)
 *   history = op sequence of length <= D from a freshly initialised object
 *
 * At EVERY prefix point s of every history (depth p <= D-1, suffix length L = min(2, D-p)):
 *   (i)   CLONE : memcpy exactly size bytes into a fresh exact-size heap block at another 8/16-byte phase that
 *                 was pre-filled with another poison; the original's block is overwritten with garbage (and
 *                 ASan-poisoned) while the clone runs; every suffix of length <= L is run on both; observations
 *                 AND final state bytes must be equal.
 *   (ii)  RESET : OPUS_RESET_STATE on s  vs  a newly initialised object given the accepted setting ctls of the
 *                 history ("carrying the same settings"); every suffix of length <= L; observations must be equal
 *                 (behavioural, not byte, equality — the statement speaks of behaviour).
 *   (iii) TWIN  : a second object created while 0-3 unrelated objects exist, in a block with another poison /
 *                 through the library's own create(), driven through the same history with unrelated calls on the
 *                 foreign objects interleaved and different stack garbage; observations must be equal at every
 *                 step.  If its final bytes equal s it is covered by (i); otherwise (not itself a violation) all
 *                 suffixes are run on it too.
 * Observation after each op = return code + digest of output bytes / PCM + the full public getter vector
 * (final range is one of the getters).
 *
 * Every op runs at one fixed stack pointer (alloca pad) over a stack region pre-filled with a per-object garbage
 * pattern, so a read of an uninitialised local shows up as a behavioural difference between original and
 * clone/twin, and stack addresses left inside states (energy mask of the surround encoder) are equal.
 *
 * No sampling: the space (bases x ops^D) is enumerated completely; VERIF_SEED only rotates the item order.
 */
#ifndef C12_ENGINE_H
#define C12_ENGINE_H
#define _GNU_SOURCE
#include <stdlib.h>
#include <string.h>
#include <stdio.h>
#include <stdint.h>
#include <alloca.h>
#include <malloc.h>
#include <sys/stat.h>
#include <sys/types.h>
#include "opus.h"
#include "opus_multistream.h"
#include "opus_projection.h"
#include "mc.h"

#if defined(__SANITIZE_ADDRESS__)
# define C12_ASAN 1
#elif defined(__has_feature)
# if __has_feature(address_sanitizer)
#  define C12_ASAN 1
# endif
# if __has_feature(memory_sanitizer)
#  define C12_MSAN 1
# endif
#endif
#ifndef C12_ASAN
# define C12_ASAN 0
#endif
#ifndef C12_MSAN
# define C12_MSAN 0
#endif
#if C12_ASAN
# include <sanitizer/asan_interface.h>
# define C12_POISON(p,n) ASAN_POISON_MEMORY_REGION(p,n)
# define C12_UNPOISON(p,n) ASAN_UNPOISON_MEMORY_REGION(p,n)
#else
# define C12_POISON(p,n) ((void)0)
# define C12_UNPOISON(p,n) ((void)0)
#endif
#if C12_MSAN
# include <sanitizer/msan_interface.h>
# define C12_UNINIT(p,n) __msan_poison(p,n)      /* pattern stays, but MSan treats the bytes as uninitialised */
# define C12_DEFINED(p,n) __msan_unpoison(p,n)   /* data written by the uninstrumented frozen reference codec */
#else
# define C12_UNINIT(p,n) ((void)0)
# define C12_DEFINED(p,n) ((void)0)
#endif

#if C12_MSAN
/* The library variant is compiled with -D_FORTIFY_SOURCE=2, so some of its memset/memcpy calls go to glibc's uninstrumented
 * __mem*_chk entry points, which MemorySanitizer does not intercept (their writes would leave the shadow "uninitialised": false
 * reports).  Link-time interposition: route them to the intercepted functions. */
void *__memset_chk(void *d,int c,size_t n,size_t dn){ (void)dn; return memset(d,c,n); }
void *__memcpy_chk(void *d,const void *s,size_t n,size_t dn){ (void)dn; return memcpy(d,s,n); }
void *__memmove_chk(void *d,const void *s,size_t n,size_t dn){ (void)dn; return memmove(d,s,n); }
#endif
/* State images may legitimately contain bytes MSan regards as uninitialised (dead stack garbage stored by the library, heap
 * poison never overwritten by init).  The harness's own comparisons / hashes of images must not trip on them, while the shadow
 * must stay attached to the images so that a later READ by the library is still reported: compare unpoisoned scratch copies. */
#if C12_MSAN
static unsigned char *g_sc1,*g_sc2; static size_t g_scn;
static void sc_need(size_t n){ if(n>g_scn){ g_sc1=realloc(g_sc1,n); g_sc2=realloc(g_sc2,n); g_scn=n; } }
static int img_cmp(const void *a,const void *b,size_t n){ sc_need(n); memcpy(g_sc1,a,n); memcpy(g_sc2,b,n); __msan_unpoison(g_sc1,n); __msan_unpoison(g_sc2,n); return memcmp(g_sc1,g_sc2,n); }
static uint64_t img_hash(const void *a,size_t n,uint64_t seed){ sc_need(n); memcpy(g_sc1,a,n); __msan_unpoison(g_sc1,n); return mc_hash(g_sc1,n,seed); }
#else
# define img_cmp(a,b,n) memcmp(a,b,n)
# define img_hash(a,n,seed) mc_hash(a,n,seed)
#endif

#ifndef OPUS_SET_FORCE_MODE_REQUEST
#define OPUS_SET_FORCE_MODE_REQUEST 11002
#define OPUS_SET_FORCE_MODE(x) OPUS_SET_FORCE_MODE_REQUEST, (opus_int32)(x)
#endif

#define MAXG 24
#define MAXOPS 40
#define MAXD 8
enum { OP_IO=0, OP_SET=1, OP_RESET=2 };
typedef struct { char name[56]; int type; int a,b,c,d; } opdef;
typedef struct { int ret; int outlen; uint64_t outh; int gret[MAXG]; uint32_t gval[MAXG]; } obs_t;

typedef struct kind {
   const char *name;                 /* token used in signatures: encoder, decoder, ms_encoder, ... */
   int nbases;
   const char *(*bname)(int b);
   size_t (*size)(int b);
   int (*init)(void *obj,int b);     /* in-place init of a caller-provided block of size(b) bytes */
   void *(*create)(int b);           /* library-allocated object */
   void (*destroy)(void *o);
   void (*apply)(void *obj,int b,const opdef *op,obs_t *o);   /* performs the op, fills ret/outlen/outh */
   void (*getters)(void *obj,int b,obs_t *o);                 /* fills gret/gval */
   const char *const *gname; int ng;
   /* optional white-box *naming* of a reset failure (never part of the oracle): returns a cause token or NULL */
   const char *(*classify)(int b,const unsigned char *rimg,const unsigned char *fimg,const int *path,int np,const obs_t *fobs,uint64_t stale);
   int core_getter;                  /* index of FINAL_RANGE in the getter vector (part of the core observation), or -1 */
} kind_t;

static kind_t *K;
static opdef OPS[MAXOPS]; static int NOPS, RESET_OP=-1;
static int D=4;                       /* total history depth bound */
static int g_bsel[96], g_nbsel;       /* selected bases */
static int g_twins_all;               /* --twins 8: every prefix point gets a twin under each of 4 block poisons (init path) and 4 heap poisons (create path) */

static mc_set *g_visited,*g_distinct,*g_obsset;
static mc_ctr *c_states,*c_trans,*c_eval,*c_dn,*c_exec,*c_clone,*c_reset,*c_twin,*c_twin_bytes_differ,*c_garbage,*c_garbage_twin,*c_reset_unclassified,*c_reset_implied,*c_reset_stale,*c_dirty_seen,*c_fresh,*c_selfloop,*c_prefix[MAXD+1];

/* ------------------------------------------------------------------ op execution at a fixed stack pointer */
static char *g_sp_target;
#define DIRTY_BYTES (384*1024)
static __attribute__((noinline)) void c12_dirty(int pat){
   volatile char buf[DIRTY_BYTES];
   memset((void*)buf,pat,DIRTY_BYTES); C12_UNINIT((void*)buf,DIRTY_BYTES);
   __asm__ volatile(""::"r"(buf):"memory");
}
static __attribute__((noinline)) void call_op(void *obj,int b,const opdef *op,obs_t *o,int pat){
   char *here=(char*)__builtin_frame_address(0);
   long pad = here - g_sp_target;
   volatile char *p;
   if (pad<64 || pad>(6<<20)){ fprintf(stderr,"c12: stack pad out of range (%ld)\n",pad); exit(2); }
   p=(volatile char*)alloca((size_t)pad); p[0]=0;
   c12_dirty(pat);
   memset(o,0,sizeof *o);
   K->apply(obj,b,op,o);
   K->getters(obj,b,o);
   MC_INC(c_exec);
   __asm__ volatile(""::"r"(p):"memory");
}

/* ------------------------------------------------------------------ blocks */
typedef struct { unsigned char *blk,*obj; size_t n; int phase; } oblock;
static const int POISONS[3]={0x00,0xA5,0xFF};
static void ob_new(oblock *o,size_t n,int phase,int poison){
   o->blk=malloc(n+phase); if(!o->blk){ fprintf(stderr,"oom\n"); exit(2); }
   memset(o->blk,poison,n+phase); C12_UNINIT(o->blk,n+phase);
   o->obj=o->blk+phase; o->n=n; o->phase=phase;
   if (phase) C12_POISON(o->blk,phase);
}
static void ob_free(oblock *o){ if(o->phase) C12_UNPOISON(o->blk,o->phase); free(o->blk); o->blk=o->obj=NULL; }

/* ------------------------------------------------------------------ observation compare */
static uint64_t obs_hash(const obs_t *o){ return mc_hash(o,sizeof *o,12); }
/* bit 0 ret, bit 1 output, bit 2+i getter i */
static uint64_t obs_diff(const obs_t *a,const obs_t *b){
   uint64_t m=0; int i;
   if (a->ret!=b->ret) m|=1;
   if (a->outlen!=b->outlen||a->outh!=b->outh) m|=2;
   for(i=0;i<K->ng;i++) if(a->gret[i]!=b->gret[i]||a->gval[i]!=b->gval[i]) m|=4ULL<<i;
   return m;
}
static void diff_names(uint64_t m,char *out,size_t cap){
   int i; size_t k=0; out[0]=0;
   if(m&1) k+=snprintf(out+k,cap-k,"%sret",k?"+":"");
   if(m&2) k+=snprintf(out+k,cap-k,"%soutput",k?"+":"");
   for(i=0;i<K->ng&&k+40<cap;i++) if(m&(4ULL<<i)){ char nm[40]; int j; snprintf(nm,sizeof nm,"get_%s",K->gname[i]); for(j=0;nm[j];j++) if(nm[j]>='A'&&nm[j]<='Z') nm[j]+=32; k+=snprintf(out+k,cap-k,"%s%s",k?"+":"",nm); }
}
static void diff_values(uint64_t m,const obs_t *a,const obs_t *b,char *out,size_t cap){
   int i; size_t k=0; out[0]=0;
   if(m&1) k+=snprintf(out+k,cap-k," ret %d vs %d;",a->ret,b->ret);
   if(m&2) k+=snprintf(out+k,cap-k," output len %d digest %016llx vs len %d digest %016llx;",a->outlen,(unsigned long long)a->outh,b->outlen,(unsigned long long)b->outh);
   for(i=0;i<K->ng&&k+80<cap;i++) if(m&(4ULL<<i)) k+=snprintf(out+k,cap-k," %s (rc %d) %d vs (rc %d) %d;",K->gname[i],a->gret[i],(int)a->gval[i],b->gret[i],(int)b->gval[i]);
}

/* MSan builds: an output byte / getter value the library left uninitialised is a failure of its own */
static const char *hist_str(const int *suffix,int ns);
static void check_out_init(const void *p,size_t n,const char *what){
#if C12_MSAN
   intptr_t off=__msan_test_shadow(p,n);
   if (off>=0){ char sig[160]; snprintf(sig,sizeof sig,"uninitialised_output:%s:%s",K->name,what); mc_fail(sig,"%s: %s: byte %ld of %zu returned by the library is uninitialised (MemorySanitizer shadow)",hist_str(NULL,0),what,(long)off,n); __msan_unpoison(p,n); }
#else
   (void)p; (void)n; (void)what;
#endif
}
/* ------------------------------------------------------------------ per-process exploration context */
typedef struct { int op; obs_t o; } hstep;
typedef struct {
   int b; size_t n;
   oblock A;                        /* the original's home block (fixed address for the whole item) */
   hstep hist[MAXD+2]; int hl;
   unsigned char *kid[MAXD+1];      /* kid[p] : NOPS child images of the state at depth p */
   obs_t kobs[MAXD+1][MAXOPS];      /* and the original's observation of each of those transitions */
   unsigned char *tmp1,*tmp2,*tmp3,*tmp4;
   long serial;                     /* derived from the state hash: selects poison / phase / number of foreign objects at this prefix point */
} ctx_t;
static ctx_t X;

static const char *hist_str(const int *suffix,int ns){
   static char buf[1200]; size_t k=0; int i;
   k+=snprintf(buf+k,sizeof buf-k,"base{%s} history[",K->bname(X.b));
   for(i=0;i<X.hl;i++) k+=snprintf(buf+k,sizeof buf-k,"%s%s",i?" ; ":"",OPS[X.hist[i].op].name);
   k+=snprintf(buf+k,sizeof buf-k,"]");
   if(ns>0){ k+=snprintf(buf+k,sizeof buf-k," suffix["); for(i=0;i<ns;i++) k+=snprintf(buf+k,sizeof buf-k,"%s%s",i?" ; ":"",OPS[suffix[i]].name); k+=snprintf(buf+k,sizeof buf-k,"]"); }
   return buf;
}

/* run one op on block `blk` starting from image `in`; leaves the result image in `out` (may be NULL) */
static void run_on(oblock *blk,const unsigned char *in,int op,obs_t *o,unsigned char *out,int pat){
   if (in) memcpy(blk->obj,in,X.n);
   call_op(blk->obj,X.b,&OPS[op],o,pat);
   if (out) memcpy(out,blk->obj,X.n);
}
static void note_obs(const opdef *op,const obs_t *o){
   if (op->type==OP_IO && o->ret>0){ if (mc_set_add(g_obsset,obs_hash(o))) MC_INC(c_dn); }
}
static void trash_original(void){ memset(X.A.obj,0xDB,X.n); C12_POISON(X.A.obj,X.n); }
static void revive_original(void){ C12_UNPOISON(X.A.obj,X.n); }

static long first_diff_byte(const unsigned char *a0,const unsigned char *b0,size_t n,long *cnt){
   long f=-1; size_t i;
#if C12_MSAN
   const unsigned char *a,*b; sc_need(n); memcpy(g_sc1,a0,n); memcpy(g_sc2,b0,n); __msan_unpoison(g_sc1,n); __msan_unpoison(g_sc2,n); a=g_sc1; b=g_sc2;
#else
   const unsigned char *a=a0,*b=b0;
#endif
   *cnt=0; for(i=0;i<n;i++) if(a[i]!=b[i]){ if(f<0) f=(long)i; (*cnt)++; } return f;
}

/* A failure is written out once per distinct signature per prefix point */
static uint64_t g_rep[16]; static int g_nrep;
static int rep_new(const char *sig){ uint64_t h=mc_hash(sig,strlen(sig),9); int i; for(i=0;i<g_nrep;i++) if(g_rep[i]==h) return 0; if(g_nrep<16) g_rep[g_nrep++]=h; return 1; }

/* ---- (i) clone check (also used for a twin whose bytes differ from s): `cimg0` is the image the copy starts from.
 * The copy runs over DIFFERENT stack garbage than the original (0xEE vs 0x11), so a read of an uninitialised local shows as a
 * behavioural difference.  State bytes are compared too (cmp_bytes): if they differ although every observation is equal, the
 * suffix is re-run on the copy over the SAME stack garbage as the original: equal bytes then mean the library merely stored
 * indeterminate stack bytes in the state (counted as dead_garbage_bytes_in_state, not a violation of the statement — the
 * infected copy still continues with the next op, so a later READ of those bytes shows up as a behavioural difference);
 * still-different bytes are a failure.  Fills X.kid[p]/X.kobs[p] with the original's children when fill_kids. */
static void copy_fail_obs(const char *what,const int *path,int np,int phase,int poison,uint64_t m,const obs_t *o,const obs_t *c){
   char dn[400],dv[900],sig[500]; diff_names(m,dn,sizeof dn); diff_values(m,o,c,dv,sizeof dv);
   snprintf(sig,sizeof sig,"%s_neq_original:%s:%s",what,K->name,dn);
   if (rep_new(sig)) mc_fail(sig,"%s: %s (exact-size block at phase %d pre-filled with 0x%02x, original's block overwritten) behaves differently from the original at suffix op %d:%s (original vs %s)",hist_str(path,np),what,phase,poison,np,dv,what);
}
static void copy_fail_bytes(const char *what,const int *path,int np,const unsigned char *o,const unsigned char *c){
   long cnt,f=first_diff_byte(o,c,X.n,&cnt); char sig[200];
   snprintf(sig,sizeof sig,"%s_neq_original:%s:state_bytes",what,K->name);
   if (rep_new(sig)) mc_fail(sig,"%s: every observation equal, but after suffix op %d the %s's state differs from the original's in %ld bytes (same stack garbage on both sides), first at offset %ld of %zu (0x%02x vs 0x%02x)",hist_str(path,np),np,what,cnt,f,X.n,o[f],c[f]);
}
static void check_copy(const unsigned char *s,const unsigned char *cimg0,int p,int L,const char *what,int fill_kids,int cmp_bytes){
   oblock C; int a,b2; long ser=X.serial;
   unsigned char *ka=X.tmp1,*ca=X.tmp2,*t=X.tmp3;
   int phase = 8; int poison=POISONS[ser%3];
   /* a fresh exact-size heap block at a new address and at the other 16-byte phase (the original's block is 16-byte aligned, the
      copy sits at 8 mod 16), pre-filled with a poison different from what the original's block was created with (0x5C) */
   ob_new(&C,X.n,phase,poison);
   for(a=0;a<NOPS;a++){
      obs_t o1,c1; uint64_t m; int path[2]; path[0]=a;
      unsigned char *kimg = fill_kids? X.kid[p]+(size_t)a*X.n : ka;
      mc_case(what,"%s",hist_str(path,1));
      revive_original();
      run_on(&X.A,s,a,&o1,kimg,0x11);
      note_obs(&OPS[a],&o1);
      if (fill_kids) X.kobs[p][a]=o1;
      trash_original();
      /* the copy: exactly n bytes into the poisoned block */
      memset(C.obj,poison,X.n); memcpy(C.obj,cimg0,X.n);
      run_on(&C,NULL,a,&c1,ca,0xEE);
      MC_INC(c_eval); MC_INC(c_clone);
      m=obs_diff(&o1,&c1);
      if (m) copy_fail_obs(what,path,1,phase,poison,m,&o1,&c1);
      else if (cmp_bytes && img_cmp(kimg,ca,X.n)){ obs_t c1b;
         memcpy(C.obj,cimg0,X.n); run_on(&C,NULL,a,&c1b,NULL,0x11);
         if (img_cmp(kimg,C.obj,X.n)) copy_fail_bytes(what,path,1,kimg,C.obj); else MC_INC(c_garbage); }
      if (L>=2) for(b2=0;b2<NOPS;b2++){
         obs_t o2,c2; path[1]=b2;
         mc_case(what,"%s",hist_str(path,2));
         revive_original();
         run_on(&X.A,kimg,b2,&o2,t,0x11);
         note_obs(&OPS[b2],&o2);
         trash_original();
         memcpy(C.obj,ca,X.n);                 /* the aged copy continues in its own block */
         run_on(&C,NULL,b2,&c2,NULL,0xEE);
         MC_INC(c_eval); MC_INC(c_clone);
         m=obs_diff(&o2,&c2);
         if (m) copy_fail_obs(what,path,2,phase,poison,m,&o2,&c2);
         else if (cmp_bytes && img_cmp(t,C.obj,X.n)){ obs_t cb;
            memcpy(C.obj,cimg0,X.n); run_on(&C,NULL,a,&cb,NULL,0x11); run_on(&C,NULL,b2,&cb,NULL,0x11);
            if (img_cmp(t,C.obj,X.n)) copy_fail_bytes(what,path,2,t,C.obj); else MC_INC(c_garbage); }
      }
   }
   revive_original();
   ob_free(&C);
}

/* An observation is split into its CORE (return code, output digest, final range) and the remaining GETTERS, hashed separately,
 * so that a stale getter (a known kind of reset defect) cannot starve or mask the comparison of what is actually coded/decoded. */
typedef struct { uint64_t core,get; } oh_t;
static oh_t obs_h2(const obs_t *o){
   obs_t c=*o; oh_t h; int i,cg=K->core_getter;
   for(i=0;i<MAXG;i++) if(i!=cg){ c.gret[i]=0; c.gval[i]=0; }
   h.core=mc_hash(&c,sizeof c,21);
   c=*o; c.ret=0; c.outlen=0; c.outh=0; if(cg>=0){ c.gret[cg]=0; c.gval[cg]=0; }
   h.get=mc_hash(&c,sizeof c,22);
   return h;
}

/* ---- fresh-object memo: behaviour of (new object + accepted settings) over all suffixes, computed once per distinct image */
typedef struct { uint64_t key; unsigned char *img; obs_t g0; oh_t *h1; oh_t **h2; } fent;
#define FTAB 4096
static fent g_ft[FTAB]; static int g_fn;
static oblock g_F; static int g_F_ok;
static void fresh_flush(void){
   int i,a; for(i=0;i<FTAB;i++) if(g_ft[i].img){ free(g_ft[i].img); free(g_ft[i].h1); for(a=0;a<NOPS;a++) free(g_ft[i].h2[a]); free(g_ft[i].h2); }
   memset(g_ft,0,sizeof g_ft); g_fn=0;
}
static fent *fresh_lookup(const unsigned char *fimg,const obs_t *g0){
   uint64_t k=img_hash(fimg,X.n,3)^(uint64_t)(X.b+1)*0x9e3779b97f4a7c15ULL; unsigned i;
   if (g_fn>FTAB/2) fresh_flush();                /* bounded memo: recomputation only costs time */
   i=(unsigned)(k>>20)&(FTAB-1);
   for(;;){ fent *e=&g_ft[i];
      if(e->img && e->key==k) return e;
      if(!e->img){ e->key=k; e->img=malloc(X.n); memcpy(e->img,fimg,X.n); e->g0=*g0; e->h1=NULL; e->h2=calloc(NOPS,sizeof(oh_t*)); g_fn++; MC_INC(c_fresh); return e; }
      i=(i+1)&(FTAB-1);
   }
}
static void fresh_need1(fent *e){
   int a; if(e->h1) return; e->h1=malloc(NOPS*sizeof(oh_t));
   for(a=0;a<NOPS;a++){ obs_t o; mc_case("fresh","fresh object, op %s",OPS[a].name); run_on(&g_F,e->img,a,&o,NULL,0x33); note_obs(&OPS[a],&o); e->h1[a]=obs_h2(&o); }
}
static void fresh_need2(fent *e,int a){
   int b2; obs_t o; if(e->h2[a]) return; e->h2[a]=malloc(NOPS*sizeof(oh_t));
   run_on(&g_F,e->img,a,&o,X.tmp4,0x33);
   for(b2=0;b2<NOPS;b2++){ mc_case("fresh","fresh object, ops %s ; %s",OPS[a].name,OPS[b2].name); run_on(&g_F,X.tmp4,b2,&o,NULL,0x33); note_obs(&OPS[b2],&o); e->h2[a][b2]=obs_h2(&o); }
}

/* build "a newly created object carrying the same settings": init + the setting ops of the history that were accepted */
static void build_fresh(unsigned char *fimg,obs_t *g0){
   int i,rc; long ser=X.serial; oblock Fb;
   ob_new(&Fb,X.n,(ser&2)?8:0,POISONS[(ser+1)%3]);
   mc_case("fresh_init","%s",hist_str(NULL,0));
   rc=K->init(Fb.obj,X.b);
   if(rc!=OPUS_OK){ fprintf(stderr,"c12: init failed %d\n",rc); exit(2); }
   memset(g0,0,sizeof *g0);
   for(i=0;i<X.hl;i++){ const opdef *op=&OPS[X.hist[i].op]; if(op->type==OP_SET && X.hist[i].o.ret==OPUS_OK){ obs_t o; call_op(Fb.obj,X.b,op,&o,0x33); } }
   K->getters(Fb.obj,X.b,g0);
   memcpy(fimg,Fb.obj,X.n);
   ob_free(&Fb);
}

/* verbose recomputation of both sides for the message + optional white-box naming of the cause.
 * stale = getter components that already differ right after the reset (reported on their own). */
static void report_reset(const unsigned char *rimg,fent *fe,const int *path,int np,uint64_t stale){
   obs_t ro[3],fo[3]; uint64_t m=0; int i; char dn[400],dv[900],sig[500]; const char *cause=NULL; unsigned char *ri=X.tmp3,*fi=X.tmp4; int firstbad=-1; uint64_t mfirst=0;
   memcpy(ri,rimg,X.n); memcpy(fi,fe->img,X.n);
   for(i=0;i<np;i++){ uint64_t mi; run_on(&X.A,ri,path[i],&ro[i],ri,0x11); run_on(&g_F,fi,path[i],&fo[i],fi,0x33); mi=obs_diff(&ro[i],&fo[i]); if(mi&&firstbad<0){ firstbad=i; mfirst=mi; } m|=mi; }
   if (np==0){ /* getter vector right after the reset */ obs_t r0; memset(&r0,0,sizeof r0); memcpy(X.A.obj,rimg,X.n); K->getters(X.A.obj,X.b,&r0); m=obs_diff(&r0,&fe->g0)&~3ULL; ro[0]=r0; fo[0]=fe->g0; firstbad=0; mfirst=m; }
   if (!m) return;
   diff_names(m,dn,sizeof dn); diff_values(mfirst,&ro[firstbad],&fo[firstbad],dv,sizeof dv);
   if (K->classify && np>0 && (m&~stale)) cause=K->classify(X.b,rimg,fe->img,path,np,fo,stale);
   snprintf(sig,sizeof sig,"reset_neq_fresh:%s:%s",K->name,cause?cause:dn);
   if (rep_new(sig)) mc_fail(sig,"%s: object after OPUS_RESET_STATE vs newly initialised object with the same accepted settings: components differing over the suffix {%s}; first difference at suffix op %d (%s):%s (reset vs fresh)%s%s",
      hist_str(path,np),dn,firstbad+1,np?OPS[path[firstbad]].name:"getter vector right after reset",dv,cause?" ; cause named by counterfactual repair of the reset image: ":"",cause?cause:"");
}

/* ---- (ii) reset check.  Analysis budget per prefix point: 6 core failures + 3 getter-only failures are re-run verbosely, named
 * and written out; further ones are only counted (reset_failures_not_analysed).  A core failure at the first suffix op is the
 * minimal failing suffix, so its extensions are not run; a getter-only difference does not stop the second level. */
static void check_reset(const unsigned char *s,int p,int L){
   obs_t r0,g0; unsigned char *rimg=X.tmp1,*ra=X.tmp2,*fimg=X.tmp3; fent *fe; int a,b2,bud_core=6,bud_get=3; uint64_t stale; int path[2];
   (void)p;
   mc_case("reset","%s",hist_str(NULL,0));
   run_on(&X.A,s,RESET_OP,&r0,rimg,0x11);
   build_fresh(fimg,&g0);
   fe=fresh_lookup(fimg,&g0);
   MC_INC(c_eval); MC_INC(c_reset);
   if (r0.ret!=OPUS_OK){ char sig[120]; snprintf(sig,sizeof sig,"reset_neq_fresh:%s:reset_returns_error",K->name); mc_fail(sig,"%s: OPUS_RESET_STATE returned %d",hist_str(NULL,0),r0.ret); return; }
   stale=obs_diff(&r0,&g0)&~3ULL;
   if (stale){ report_reset(rimg,fe,path,0,0); MC_INC(c_reset_stale); }
   fresh_need1(fe);
   for(a=0;a<NOPS;a++){
      obs_t o1; oh_t h; int g1=0; path[0]=a;
      mc_case("reset","%s",hist_str(path,1));
      run_on(&X.A,rimg,a,&o1,ra,0x11);
      MC_INC(c_eval); MC_INC(c_reset);
      h=obs_h2(&o1);
      if (h.core!=fe->h1[a].core){
         if (bud_core>0){ report_reset(rimg,fe,path,1,stale); bud_core--; } else MC_INC(c_reset_unclassified);
         continue;
      }
      if (h.get!=fe->h1[a].get){ g1=1;
         if (stale) MC_INC(c_reset_implied); else if (bud_get>0){ report_reset(rimg,fe,path,1,stale); bud_get--; } else MC_INC(c_reset_unclassified); }
      if (L>=2){ fresh_need2(fe,a);
         for(b2=0;b2<NOPS;b2++){ obs_t o2; path[1]=b2;
            mc_case("reset","%s",hist_str(path,2));
            run_on(&X.A,ra,b2,&o2,NULL,0x11);
            MC_INC(c_eval); MC_INC(c_reset);
            h=obs_h2(&o2);
            if (h.core!=fe->h2[a][b2].core){ if (bud_core>0){ report_reset(rimg,fe,path,2,stale); bud_core--; } else MC_INC(c_reset_unclassified); }
            else if (h.get!=fe->h2[a][b2].get){
               if (stale||g1) MC_INC(c_reset_implied); else if (bud_get>0){ report_reset(rimg,fe,path,2,stale); bud_get--; } else MC_INC(c_reset_unclassified); }
         }
      }
   }
}

/* ---- (iii) twin check */
static void foreign_calls(OpusEncoder *fe,OpusDecoder *fd,OpusDecoder *fd2,int step){
   short pcm[160*2]; unsigned char pk[120]; short out[480*2]; int i;
   for(i=0;i<160;i++) pcm[i]=(short)((i*131+step*977)%9000-4500);
   if (fe){ int n=opus_encode(fe,pcm,160,pk,sizeof pk); if (fd2 && n>0) opus_decode(fd2,pk,n,out,160,0); }
   if (fd) opus_decode(fd,NULL,0,out,480,0);
   { size_t sz=1000+(size_t)(step%7)*4096; unsigned char *j=malloc(sz); memset(j,0x3C+step,sz); free(j); }
}
/* create() path: hand the allocator dirty memory of the right size first (effective with plain glibc malloc; the sanitizer
 * allocators quarantine freed blocks, there the counter create_saw_dirty_heap stays 0 and only the init path varies the contents) */
static const int TWPOISON[4]={0x00,0xFF,0xA5,0x01};
static void dirty_heap(size_t n,int poison){
   unsigned char *a=malloc(n),*b2=malloc(n+64),*c=malloc(n); 
   if(a) memset(a,poison,n); if(b2) memset(b2,poison,n+64); if(c) memset(c,poison,n);
   __asm__ volatile(""::"r"(a),"r"(b2),"r"(c):"memory");      /* keep the stores: the compiler would drop a memset that is followed by free() */
   free(c); free(a); free(b2);
#if !C12_ASAN && !C12_MSAN
   { unsigned char *q=malloc(n); if(q){ if(q[n/2]==(unsigned char)poison && q[n-1]==(unsigned char)poison && poison!=0) MC_INC(c_dirty_seen); free(q); } }
#endif
}
/* builds the twin over stack garbage `pat`, compares its observations along the history when cmp, returns its final image.
 * variant <0: one construction chosen by the state hash; 0..3: init into a block pre-filled with TWPOISON[v];
 * 4..7: library create() after dirtying the heap with TWPOISON[v-4]. */
static void run_twin(int pat,int cmp,unsigned char *timg,int variant){
   long ser=X.serial; int k=(int)((ser+(variant<0?0:variant))%4),i,err; OpusEncoder *fe=NULL; OpusDecoder *fd=NULL,*fd2=NULL; void *junk=NULL;
   oblock T; void *lib=NULL; unsigned char *obj; int use_create= variant<0? (int)((ser/4)&1) : variant>=4;
   int poison = variant<0? POISONS[(ser+2)%3] : TWPOISON[variant&3];
   /* 0-3 unrelated objects exist while the twin is created and used */
   if (k>=1) fd=opus_decoder_create(48000,2,&err);
   if (k>=2) fe=opus_encoder_create(16000,1,OPUS_APPLICATION_VOIP,&err);
   if (k>=3){ fd2=opus_decoder_create(16000,1,&err); junk=malloc(77777); memset(junk,0x6B,77777); }
   foreign_calls(fe,fd,fd2,0);
   if (use_create){ if (variant>=0) dirty_heap(X.n,poison); lib=K->create(X.b); if(!lib){ fprintf(stderr,"c12: create failed\n"); exit(2);} obj=lib; }
   else { ob_new(&T,X.n,(ser&1)?0:8,poison); if(K->init(T.obj,X.b)!=OPUS_OK){ fprintf(stderr,"c12: init failed\n"); exit(2);} obj=T.obj; }
   trash_original();
   for(i=0;i<X.hl;i++){ obs_t t; uint64_t m;
      foreign_calls(fe,fd,fd2,i+1);
      call_op(obj,X.b,&OPS[X.hist[i].op],&t,pat);
      if (!cmp) continue;
      MC_INC(c_eval); MC_INC(c_twin);
      m=obs_diff(&X.hist[i].o,&t);
      if (m){ char dn[400],dv[900],sig[500]; diff_names(m,dn,sizeof dn); diff_values(m,&X.hist[i].o,&t,dv,sizeof dv);
         snprintf(sig,sizeof sig,"twin_neq_original:%s:%s",K->name,dn);
         if (rep_new(sig)) mc_fail(sig,"%s: a second object (%s 0x%02x, %d unrelated objects alive, unrelated calls interleaved, other stack garbage) given the same calls differs at history op %d (%s):%s (original vs twin)",
            hist_str(NULL,0),use_create?"library create() after dirtying the heap with":"init in a block pre-filled with",poison,k,i+1,OPS[X.hist[i].op].name,dv); }
   }
   revive_original();
   memcpy(timg,obj,X.n);
   if (use_create) K->destroy(lib); else ob_free(&T);
   if (fe) opus_encoder_destroy(fe); if (fd) opus_decoder_destroy(fd); if (fd2) opus_decoder_destroy(fd2); free(junk);
}
static void check_twin(const unsigned char *s,int p,int L){
   unsigned char *timg=malloc(X.n); int v,v0=g_twins_all?0:-1,v1=g_twins_all?7:-1;
   for(v=v0;v<=v1;v++){
      mc_case("twin","%s twin variant %d",hist_str(NULL,0),v);
      run_twin(0x77,1,timg,v);
      MC_INC(c_eval); MC_INC(c_twin);
      if (img_cmp(timg,s,X.n)){
         /* different bytes are not a violation in themselves (the statement is about behaviour).  Same stack garbage as the original: */
         run_twin(0x11,0,timg,v);
         if (!img_cmp(timg,s,X.n)) MC_INC(c_garbage_twin);      /* only dead stack garbage differed: the twin is a clone, covered by (i) */
         else { MC_INC(c_twin_bytes_differ);
            /* run every suffix on the twin as well (all-variants mode: every variant at depth <= 1, one rotating variant deeper) */
            if (v<0 || p<=1 || v==(int)(X.serial&7)){ char what[24]; snprintf(what,sizeof what,"twin"); check_copy(s,timg,p,L,what,0,0); } }
      }
   }
   free(timg);
}

/* ---- DFS over prefix points */
static int g_samples_left=3;
static void visit(const unsigned char *s,int p,int recurse){
   uint64_t h=img_hash(s,X.n,1)^(uint64_t)(X.b+1)*0xD6E8FEB86659FD93ULL; int L,a;
   if (!mc_set_add(g_visited,mc_mix(h,(uint64_t)p+1))) return;
   if (mc_set_add(g_distinct,h)) MC_INC(c_states);
   L = D-p; if (L>2) L=2; if (L<=0) return;
   MC_INC(c_prefix[p]); MC_ADD(c_trans,NOPS);
   X.serial = (long)(h>>17)&0xFFFF;      /* rotation of phase/poison/foreign-object count is a function of the state, not of the visiting order */
   g_nrep=0;
   check_copy(s,s,p,L,"clone",1,1);
   check_reset(s,p,L);
   check_twin(s,p,L);
   if (g_samples_left>0 && p>=2 && mc_worker_id()==0){ g_samples_left--;
      mc_sample("%s prefix point depth %d (state image %zu bytes, hash %016llx): clone/original (obs+state bytes), reset/fresh and twin compared over all %d suffixes of length <=%d: %s",
         hist_str(NULL,0),p,X.n,(unsigned long long)h,L==2?NOPS+NOPS*NOPS:NOPS,L,g_nrep?"FAILURE(S) reported":"all equal"); }
   if (!recurse || p+1>D-1) return;
   for(a=0;a<NOPS;a++){
      unsigned char *c=X.kid[p]+(size_t)a*X.n;
      if (!img_cmp(c,s,X.n)){ MC_INC(c_selfloop); continue; }   /* idempotent setting: same state, shorter history covers it */
      /* the observation of this step is needed by the twin check of the deeper prefix points */
      X.hist[X.hl].op=a; X.hist[X.hl].o=X.kobs[p][a]; X.hl++;
      visit(c,p+1,1);
      X.hl--;
   }
}

static void engine_item(long it,void *ctx){
   long per=(long)NOPS*NOPS; int b=g_bsel[it/per]; long r=it%per; int a1=(int)(r/NOPS), a2=(int)(r%NOPS); int p; obs_t o; unsigned char *root,*s1,*s2; static int last_b=-1;
   (void)ctx;
   if (b!=last_b){ if(last_b>=0) fresh_flush(); last_b=b; }   /* items of one base are contiguous: the fresh-object memo is per base */
   memset(&X,0,sizeof X); X.b=b; X.n=K->size(b);
   ob_new(&X.A,X.n,0,0x5C);
   for(p=0;p<=D;p++) X.kid[p]=malloc((size_t)NOPS*X.n);
   X.tmp1=malloc(X.n); X.tmp2=malloc(X.n); X.tmp3=malloc(X.n); X.tmp4=malloc(X.n);
   root=malloc(X.n); s1=malloc(X.n); s2=malloc(X.n);
   if (!g_F_ok || g_F.n!=X.n){ if(g_F_ok) ob_free(&g_F); ob_new(&g_F,X.n,8,0xFF); g_F_ok=1; }
   mc_case("init","base{%s}",K->bname(b));
   if (K->init(X.A.obj,b)!=OPUS_OK){ mc_fail("init_failed","base{%s}",K->bname(b)); goto done; }
   memcpy(root,X.A.obj,X.n);
   if (a1==0 && a2==0) visit(root,0,0);
   run_on(&X.A,root,a1,&o,s1,0x11);
   if (!img_cmp(s1,root,X.n)) goto done;
   X.hist[0].op=a1; X.hist[0].o=o; X.hl=1;
   if (a2==0) visit(s1,1,0);
   if (D>=3){
      run_on(&X.A,s1,a2,&o,s2,0x11);
      if (!img_cmp(s2,s1,X.n)) goto done;
      X.hist[1].op=a2; X.hist[1].o=o; X.hl=2;
      visit(s2,2,1);
   }
done:
   for(p=0;p<=D;p++) free(X.kid[p]);
   free(X.tmp1); free(X.tmp2); free(X.tmp3); free(X.tmp4); free(root); free(s1); free(s2);
   ob_free(&X.A);
}

/* --bases: "all", or a comma separated list of indices / ranges "a-b"; a plain digit string "0123" selects single-digit indices */
static void engine_parse_bases(const char *spec,int nb){
   g_nbsel=0;
   if (!strcmp(spec,"all")){ int i; for(i=0;i<nb&&g_nbsel<96;i++) g_bsel[g_nbsel++]=i; return; }
   if (!strchr(spec,',')&&!strchr(spec,'-')){ int i; for(i=0;spec[i];i++) if(spec[i]>='0'&&spec[i]<='9'&&spec[i]-'0'<nb) g_bsel[g_nbsel++]=spec[i]-'0'; return; }
   { const char *q=spec; while(*q){ int a=(int)strtol(q,(char**)&q,10),b2=a,i; if(*q=='-'){ q++; b2=(int)strtol(q,(char**)&q,10); } for(i=a;i<=b2&&i<nb&&g_nbsel<96;i++) g_bsel[g_nbsel++]=i; if(*q==',') q++; else if(*q) break; } }
}
/* An item can emit failures with several signatures.  ./check verifies each reported signature by re-running the item with --only
 * in the same output directory, and the runtime names replay files <prop>-<part>-<item>-<n> with n restarting at 0 in every
 * process, so such a re-run would overwrite the replay files written by the exploring run with files of other signatures.
 * Keep the files of --only runs in a sub-directory. */
static void engine_replay_outdir(void){
   if (MC.only_item>=0){ static char d[600]; snprintf(d,sizeof d,"%s/only",MC.outdir); mkdir(d,0777); MC.outdir=d; }
}
static int engine_main(void){
   int i; long nitems; char nm[32];
   /* fixed absolute stack position for every op (2 MB aligned, so it does not move with the size of argv / environment: a replay with
      other arguments sees the same stack addresses, hence the same state bytes where a state holds a stack pointer) */
   { char *here=(char*)__builtin_frame_address(0); g_sp_target=(char*)(((uintptr_t)here-(1<<20))&~(uintptr_t)((2<<20)-1)); }
   D=(int)mc_arg("--depth",MC.tier?5:4); if(D<2) D=2; if(D>MAXD) D=MAXD;
   g_twins_all=(int)mc_arg("--twins",0)>=8;
#if !C12_ASAN && !C12_MSAN
   /* plain glibc malloc: keep freed blocks in the heap (no mmap / trim) so that create() can be handed dirty memory */
   mallopt(M_MMAP_THRESHOLD,1<<30); mallopt(M_TRIM_THRESHOLD,1<<30); mallopt(M_TOP_PAD,64<<20);
#endif
   for(i=0;i<NOPS;i++) if(OPS[i].type==OP_RESET) RESET_OP=i;
   if (RESET_OP<0||NOPS>MAXOPS||K->ng>MAXG){ fprintf(stderr,"c12: bad alphabet\n"); return 2; }
   c_states=mc_counter("states"); c_trans=mc_counter("transitions"); c_eval=mc_counter("evaluations"); c_dn=mc_counter("distinct_nontrivial");
   c_exec=mc_counter("op_executions"); c_clone=mc_counter("clone_comparisons"); c_reset=mc_counter("reset_comparisons"); c_twin=mc_counter("twin_comparisons");
   c_twin_bytes_differ=mc_counter("twins_with_different_bytes"); c_garbage=mc_counter("dead_garbage_bytes_in_state"); c_garbage_twin=mc_counter("twins_differing_only_by_dead_garbage"); c_reset_unclassified=mc_counter("reset_failures_not_analysed"); c_reset_implied=mc_counter("reset_getter_diffs_implied_by_stale_getter"); c_reset_stale=mc_counter("prefix_points_with_stale_getter_after_reset"); c_dirty_seen=mc_counter("create_saw_dirty_heap"); c_fresh=mc_counter("fresh_settings_objects"); c_selfloop=mc_counter("idempotent_edges_skipped");
   for(i=0;i<=D&&i<=MAXD;i++){ snprintf(nm,sizeof nm,"prefix_points_depth%d",i); c_prefix[i]=mc_counter(nm); }
   g_visited=mc_set_new(24); g_distinct=mc_set_new(24); g_obsset=mc_set_new(24);
   mc_info("kind=%s depth_bound=%d alphabet=%d ops bases=%d asan=%d msan=%d",K->name,D,NOPS,g_nbsel,C12_ASAN,C12_MSAN);
   for(i=0;i<NOPS;i++) mc_info("op[%d]=%s",i,OPS[i].name);
   for(i=0;i<g_nbsel;i++) mc_info("base[%d]={%s} get_size=%zu",g_bsel[i],K->bname(g_bsel[i]),K->size(g_bsel[i]));
   nitems=(long)g_nbsel*NOPS*NOPS;
   mc_par(nitems,engine_item,NULL);
   { mc_ctr *hd=mc_counter("history_depth_bound"); *hd=D; hd=mc_counter("alphabet_ops"); *hd=NOPS; hd=mc_counter("bases"); *hd=g_nbsel; }
   return mc_finish();
}
#endif
