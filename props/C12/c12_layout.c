/* c12_layout.c — white-box field offsets of OpusEncoder, used ONLY to *name* the cause of a reset-vs-fresh
 * failure in its signature (counterfactual repair of one field of the reset image, see e_classify in c12_enc.c).
 * The oracle (observations differ) never looks at these.  Including the .c keeps the offsets right for whatever
 * tree / configuration is being checked; this translation unit then provides the opus_encoder.c symbols to the link. */
#include "src/opus_encoder.c"
#include <stddef.h>
const int c12_off_lbrr_coded = (int)(offsetof(OpusEncoder,silk_mode)+offsetof(silk_EncControlStruct,LBRR_coded));
const int c12_off_voice_ratio = (int)offsetof(OpusEncoder,voice_ratio);
const int c12_off_force_channels = (int)offsetof(OpusEncoder,force_channels);
