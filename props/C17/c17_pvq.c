/* C17 (PVQ clause) — pulse vectors with K pulses and indices below V(N,K) correspond one-to-one, and V obeys its
 * recurrence without overflow, for every (N,K) the static mode can reach at any frame size.
 *
 * The translation unit includes celt/cwrs.c itself, so the static functions icwrs()/cwrsi(), the CELT_PVQ_U_DATA /
 * CELT_PVQ_U_ROW tables and the CELT_PVQ_V() macro under test are the tree's own (the archive member cwrs.o is shadowed:
 * every external symbol it defines is defined here from the same source, compiled with the library's own flags).
 *
 * Space (E3, plain product enumeration):
 *   pairs   = every (N,K) with N = (eBands[j+1]-eBands[j])<<i>>1 >= 2 for i = 0..maxLM+1 (i = LM+1; i=0 is the extra
 *             split level LM=-1 of quant_partition) and K = get_pulses(q), q = 1..cache.bits[cache.index[i*nbEBands+j]]
 *             — exactly what bits2pulses()/quant_partition() can hand to alg_quant()/alg_unquant().
 *   item 0  : table layout; every word of CELT_PVQ_U_DATA against the 64-bit model U(n,k); for every pair: the cells
 *             icwrs/cwrsi can touch lie inside the table rows, V(model) < 2^32, CELT_PVQ_V == model,
 *             V(N,K) == V(N-1,K)+V(N,K-1)+V(N-1,K-1) on the library's own values in 64-bit.
 *   RANGE   : all indices i in a chunk of [0,V): cwrsi(N,K,i) has sum|y| == K and icwrs(y) == i.
 *   EDGE    : (pairs not fully walked in this tier) sorted-unique set of first/last E indices, both sides of every block
 *             boundary of the two outermost coordinates, a fixed stride — same oracle.
 *   CODER   : boundary indices + all vectors with <=2 non-zero coordinates through encode_pulses -> real range coder ->
 *             decode_pulses; icwrs(y) < V, cwrsi(icwrs(y)) == y.
 *   VECTORS : (V <= 2^vec) every integer vector with sum|y| == K generated independently: icwrs(y) < V, indices pairwise
 *             distinct (bitmap), cwrsi(icwrs(y)) == y, and the number of vectors == V.
 * Oracles are the statement's: K pulses, encodes back to the same index, index < V, V recurrence, no 32-bit overflow.
 */
#include "celt/cwrs.c"
#include <string.h>
#include <stdio.h>
#include "modes.h"
#include "rate.h"
#include "entenc.h"
#include "entdec.h"
#include "mc.h"
#include "c17_model.h"

#if defined(SMALL_FOOTPRINT)
# error "C17 harness expects the table-driven (non SMALL_FOOTPRINT) cwrs.c"
#endif

#define NROWS ((int)(sizeof(CELT_PVQ_U_ROW)/sizeof(CELT_PVQ_U_ROW[0])))
#define NDATA ((int)(sizeof(CELT_PVQ_U_DATA)/sizeof(CELT_PVQ_U_DATA[0])))
static int row_s[32], row_e[32];                 /* DATA offsets [row_s,row_e) of row n; first entry is k=n */
static int in_table(int n,int k){ int a=n<k?n:k, b=n<k?k:n; return a<NROWS && b-a < row_e[a]-row_s[a]; }

typedef struct { int N,K,lm1,band; uint64_t V; int full; } pair_t;
static pair_t pairs[4096]; static int npairs;
typedef struct { int kind,pair; uint64_t lo,hi; } item_t;
enum { K_STATIC, K_RANGE, K_EDGE, K_CODER, K_VECTORS };
static item_t *items; static long nitems;

static mc_ctr *c_eval,*c_rt,*c_states,*c_vec,*c_coder,*c_tab,*c_pairs_full,*c_sumV_full;
static mc_set *classes;
static int full_log2, vec_log2, stride_log2, edge_n, sample_mod;
static const CELTMode *mode;

#define MAXN 512
static int fails_here;
#define FAIL_CAP 6

/* one index -> vector -> index round trip; y is an exact-size guarded buffer of N ints */
static inline int rt1(int N,int K,opus_uint32 idx,int *y,unsigned *nnz_seen){
   int j,s=0,nnz=0; opus_uint32 r;
   cwrsi(N,K,idx,y);
   for(j=0;j<N;j++){ int a=abs(y[j]); s+=a; nnz+=a!=0; }
   if (s!=K){ if(fails_here++<FAIL_CAP) mc_fail("pvq:pulse_count","cwrsi(N=%d,K=%d,i=%u) gives sum|y|=%d, want %d",N,K,idx,s,K); return 0; }
   r=icwrs(N,y);
   if (r!=idx){ if(fails_here++<FAIL_CAP) mc_fail("pvq:roundtrip","N=%d K=%d: icwrs(cwrsi(i=%u)) = %u",N,K,idx,r); return 0; }
   nnz_seen[nnz>>5] |= 1u<<(nnz&31);
   return 1;
}
static void flush_classes(int N,int K,const unsigned *nnz_seen,int tag){
   int z; for(z=0;z<=N&&z<MAXN;z++) if(nnz_seen[z>>5]>>(z&31)&1) mc_set_add(classes,mc_mix(mc_mix(N,K),mc_mix(z,tag)));
}
static const char *vecstr(const int *y,int N){
   static char b[1600]; int i,k=0; for(i=0;i<N&&k<1500;i++) k+=sprintf(b+k,"%s%d",i?",":"",y[i]); if(i<N) sprintf(b+k,",..."); return b;
}

/* ---- boundary set of a pair (uses the model U only to choose indices) ---- */
static uint64_t *bl; static size_t bln, blcap;
static void bl_add(uint64_t v,uint64_t V){ if(v<V){ if(bln==blcap){ blcap=blcap?blcap*2:1<<16; bl=realloc(bl,blcap*8); if(!bl) abort(); } bl[bln++]=v; } }
static void bl_add3(uint64_t b,uint64_t V){ if(b>0) bl_add(b-1,V); bl_add(b,V); bl_add(b+1,V); }
static void bl_blocks(int N,int K,uint64_t base,uint64_t V,int depth){
   /* blocks of the first coordinate: y0 = K-k' >= 0 at base+U(N,k'), k'=0..K ; y0 = -(K-k') at base+U(N,K+1)+U(N,k'), k'=0..K-1 */
   int kp;
   for(kp=0;kp<=K;kp++){
      uint64_t b0=base+mU(N,kp), b1=base+mU(N,K+1)+mU(N,kp);
      bl_add3(b0,V); if(depth>1&&N-1>=2&&kp>0) bl_blocks(N-1,kp,b0,V,depth-1);
      if(kp<K){ bl_add3(b1,V); if(depth>1&&N-1>=2&&kp>0) bl_blocks(N-1,kp,b1,V,depth-1); }
   }
}
static int cmp64(const void *a,const void *b){ uint64_t x=*(const uint64_t*)a,y=*(const uint64_t*)b; return x<y?-1:x>y; }
static void bl_build(const pair_t *p,int with_stride){
   uint64_t V=p->V,i; size_t k,w;
   bln=0;
   for(i=0;i<(uint64_t)edge_n&&i<V;i++){ bl_add(i,V); bl_add(V-1-i,V); }
   bl_blocks(p->N,p->K,0,V,2);
   if(with_stride){ uint64_t step=(V>>stride_log2)+1; for(i=0;i<V;i+=step) bl_add(i,V); }
   qsort(bl,bln,8,cmp64);
   for(k=w=0;k<bln;k++) if(!w||bl[w-1]!=bl[k]) bl[w++]=bl[k];
   bln=w;
}

/* ---- range coder round trip of a batch of vectors ---- */
#define BATCH 32
static int cb_y[BATCH][MAXN]; static int cb_n;
static void coder_flush(int N,int K){
   unsigned char buf[BATCH*4+16]; ec_enc enc; ec_dec dec; int b; mc_gbuf g;
   if(!cb_n) return;
   memset(buf,0,sizeof buf);
   ec_enc_init(&enc,buf,sizeof buf);
   for(b=0;b<cb_n;b++) encode_pulses(cb_y[b],N,K,&enc);
   if (ec_get_error(&enc)){ if(fails_here++<FAIL_CAP) mc_fail("pvq:coder_error","N=%d K=%d: range encoder error after %d encode_pulses into %d bytes",N,K,cb_n,(int)sizeof buf); cb_n=0; return; }
   ec_enc_done(&enc);
   ec_dec_init(&dec,buf,sizeof buf);
   mc_galloc(&g,(size_t)N*sizeof(int));
   for(b=0;b<cb_n;b++){
      int *y2=(int*)g.p;
      decode_pulses(y2,N,K,&dec);
      MC_INC(c_coder);
      if (memcmp(y2,cb_y[b],(size_t)N*sizeof(int))){ if(fails_here++<FAIL_CAP) mc_fail("pvq:coder_roundtrip","N=%d K=%d vector %d of batch: encode_pulses([%s]) decodes to a different vector",N,K,b,vecstr(cb_y[b],N)); break; }
   }
   if(!mc_gcheck(&g)) mc_fail("pvq:decode_overrun","decode_pulses wrote outside y[%d] (N=%d K=%d)",N,N,K);
   mc_gfree(&g);
   cb_n=0;
}
static void coder_push(int N,int K,const int *y){ memcpy(cb_y[cb_n++],y,(size_t)N*sizeof(int)); if(cb_n==BATCH) coder_flush(N,K); }

/* ---- vector-side enumeration ---- */
static int vy[MAXN], vN, vK; static uint64_t vcount, vV; static unsigned char *vbits; static int *vy2; static unsigned vnnz[MAXN/32+1];
static void vec_visit(void){
   opus_uint32 i=icwrs(vN,vy); int j,nnz=0;
   vcount++;
   if (i>=vV){ if(fails_here++<FAIL_CAP) mc_fail("pvq:index_range","N=%d K=%d: icwrs([%s]) = %u >= V = %llu",vN,vK,vecstr(vy,vN),i,(unsigned long long)vV); return; }
   if (vbits[i>>3]>>(i&7)&1){ if(fails_here++<FAIL_CAP) mc_fail("pvq:index_collision","N=%d K=%d: two vectors share index %u (second is [%s])",vN,vK,i,vecstr(vy,vN)); return; }
   vbits[i>>3]|=1<<(i&7);
   cwrsi(vN,vK,i,vy2);
   if (memcmp(vy,vy2,(size_t)vN*sizeof(int))){ if(fails_here++<FAIL_CAP) mc_fail("pvq:vector_roundtrip","N=%d K=%d: cwrsi(icwrs([%s])=%u) differs",vN,vK,vecstr(vy,vN),i); return; }
   for(j=0;j<vN;j++) nnz+=vy[j]!=0;
   vnnz[nnz>>5]|=1u<<(nnz&31);
}
static void vec_rec(int pos,int rem){
   int v;
   if (fails_here>FAIL_CAP) return;
   if (pos==vN-1){ vy[pos]=rem; vec_visit(); if(rem){ vy[pos]=-rem; vec_visit(); } return; }
   for(v=-rem;v<=rem;v++){ vy[pos]=v; vec_rec(pos+1,rem-abs(v)); }
}

/* ---- item 0: tables and V ---- */
static void static_checks(void){
   int n,k,pi;
   mc_case("static","table layout / entries / V for all pairs");
   /* layout */
   for(n=0;n<NROWS;n++){
      if (row_s[n]<0||row_e[n]>NDATA||row_e[n]<=row_s[n]||(n>0&&row_s[n]!=row_e[n-1])) mc_fail("pvq:table_layout","CELT_PVQ_U_ROW[%d] covers DATA[%d,%d) of %d (previous row ends at %d)",n,row_s[n],row_e[n],NDATA,n?row_e[n-1]:0);
   }
   if (row_s[0]!=0||row_e[NROWS-1]!=NDATA) mc_fail("pvq:table_layout","rows cover DATA[%d,%d), array has %d words",row_s[0],row_e[NROWS-1],NDATA);
   /* every word */
   for(n=0;n<NROWS;n++) for(k=n;k<n+row_e[n]-row_s[n];k++){
      uint64_t want = k<C17_MN? mU(n,k) : C17_SAT; opus_uint32 got=CELT_PVQ_U_DATA[row_s[n]+k-n];
      MC_INC(c_tab); MC_INC(c_eval);
      if (want>=((uint64_t)1<<32)) mc_fail("pvq:table_overflow","U(%d,%d)=%llu does not fit 32 bits but has a table cell",n,k,(unsigned long long)want);
      else if (got!=want) mc_fail("pvq:table_entry","CELT_PVQ_U_DATA[%d] (U(%d,%d)) = %u, recurrence gives %llu",row_s[n]+k-n,n,k,got,(unsigned long long)want);
      else if (CELT_PVQ_U(n,k)!=got || CELT_PVQ_U(k,n)!=got) mc_fail("pvq:table_macro","CELT_PVQ_U(%d,%d) does not read DATA[%d]",n,k,row_s[n]+k-n);
   }
   /* pairs */
   for(pi=0;pi<npairs;pi++){
      pair_t *p=&pairs[pi]; int N=p->N,K=p->K,nn,kk,ok=1; uint64_t v2;
      MC_INC(c_eval);
      for(nn=1;nn<=N&&ok;nn++) for(kk=0;kk<=K+1;kk++) if(!in_table(nn,kk)){ ok=0; mc_fail("pvq:table_envelope","pair N=%d K=%d (LM=%d band %d) needs U(%d,%d), which is outside the table rows",N,K,p->lm1-1,p->band,nn,kk); break; }
      if (p->V>=((uint64_t)1<<32)){ mc_fail("pvq:V_overflow","V(%d,%d)=%llu >= 2^32 but the cache offers K=%d for N=%d (LM=%d band %d)",N,K,(unsigned long long)p->V,K,N,p->lm1-1,p->band); continue; }
      v2=c17_V_by_recurrence(N,K);
      if (v2!=p->V){ fprintf(stderr,"model self-check failed N=%d K=%d\n",N,K); exit(2); }
      if (!ok) continue;
      if (CELT_PVQ_V(N,K)!=p->V) mc_fail("pvq:V_value","CELT_PVQ_V(%d,%d) = %u, model %llu",N,K,CELT_PVQ_V(N,K),(unsigned long long)p->V);
      { uint64_t s=(uint64_t)CELT_PVQ_V(N-1,K)+CELT_PVQ_V(N,K-1)+CELT_PVQ_V(N-1,K-1);
        if (s!=(uint64_t)CELT_PVQ_V(N,K)) mc_fail("pvq:V_recurrence","V(%d,%d)=%u but V(N-1,K)+V(N,K-1)+V(N-1,K-1) = %llu",N,K,CELT_PVQ_V(N,K),(unsigned long long)s); }
   }
}

static void run_item(long it,void *ctx){
   item_t *I=&items[it]; pair_t *p=&pairs[I->pair]; int N=p->N,K=p->K; unsigned nnz[MAXN/32+1]; mc_gbuf g; int *y; uint64_t i;
   (void)ctx; fails_here=0; memset(nnz,0,sizeof nnz);
   if (I->kind==K_STATIC){ static_checks(); return; }
   mc_case("pvq","kind=%d N=%d K=%d V=%llu range=[%llu,%llu)",I->kind,N,K,(unsigned long long)p->V,(unsigned long long)I->lo,(unsigned long long)I->hi);
   if (p->V>=((uint64_t)1<<32)) return;         /* reported by item 0 */
   mc_galloc(&g,(size_t)N*sizeof(int)); y=(int*)g.p;
   switch(I->kind){
   case K_RANGE: {
      long good=0;
      for(i=I->lo;i<I->hi&&fails_here<=FAIL_CAP;i++) good+=rt1(N,K,(opus_uint32)i,y,nnz);
      MC_ADD(c_rt,i-I->lo); MC_ADD(c_eval,i-I->lo); MC_ADD(c_states,good);
      if (I->lo==0 && (I->pair%sample_mod==4 || (sample_mod<50 && p->V>((uint64_t)1<<31)))){
         cwrsi(N,K,(opus_uint32)(p->V/3),y);
         mc_sample("N=%d K=%d (LM=%d band %d) V=%llu: all %llu indices; e.g. cwrsi(i=%llu)=[%s] sum|y|=%d, icwrs -> %u",N,K,p->lm1-1,p->band,(unsigned long long)p->V,(unsigned long long)p->V,(unsigned long long)(p->V/3),vecstr(y,N),K,icwrs(N,y));
      }
      flush_classes(N,K,nnz,1);
   } break;
   case K_EDGE: {
      size_t k; long good=0;
      bl_build(p,1);
      for(k=0;k<bln&&fails_here<=FAIL_CAP;k++) good+=rt1(N,K,(opus_uint32)bl[k],y,nnz);
      MC_ADD(c_rt,k); MC_ADD(c_eval,k); MC_ADD(c_states,good);
      cwrsi(N,K,(opus_uint32)(p->V-1),y);
      if (I->pair%sample_mod==1) mc_sample("N=%d K=%d (LM=%d band %d) V=%llu: boundary+stride set of %zu indices; e.g. last index cwrsi(%llu)=[%s]",N,K,p->lm1-1,p->band,(unsigned long long)p->V,bln,(unsigned long long)(p->V-1),vecstr(y,N));
      flush_classes(N,K,nnz,2);
   } break;
   case K_CODER: {
      size_t k; int a,b,s,sg; opus_uint32 V32=(opus_uint32)p->V;
      bl_build(p,0); cb_n=0;
      for(k=0;k<bln&&fails_here<=FAIL_CAP;k++){ if(!rt1(N,K,(opus_uint32)bl[k],y,nnz)) continue; coder_push(N,K,y); }
      MC_ADD(c_rt,k); MC_ADD(c_eval,2*k);
      /* all vectors with at most two non-zero coordinates */
      for(a=0;a<N&&fails_here<=FAIL_CAP;a++) for(b=a;b<N;b++) for(s=(a==b?K:1);s<=(a==b?K:K-1);s++) for(sg=0;sg<(a==b?2:4);sg++){
         int *y2=(int*)g.p; opus_uint32 idx; int yy[MAXN];
         memset(yy,0,(size_t)N*sizeof(int));
         if(a==b) yy[a]= sg?-K:K; else { yy[a]=(sg&1)?-s:s; yy[b]=(sg&2)?-(K-s):(K-s); }
         idx=icwrs(N,yy); MC_INC(c_vec); MC_ADD(c_eval,2);
         if (idx>=V32){ if(fails_here++<FAIL_CAP) mc_fail("pvq:index_range","N=%d K=%d: icwrs([%s]) = %u >= V = %u",N,K,vecstr(yy,N),idx,V32); continue; }
         cwrsi(N,K,idx,y2);
         if (memcmp(y2,yy,(size_t)N*sizeof(int))){ if(fails_here++<FAIL_CAP) mc_fail("pvq:vector_roundtrip","N=%d K=%d: cwrsi(icwrs([%s])=%u) differs",N,K,vecstr(yy,N),idx); continue; }
         coder_push(N,K,yy);
      }
      coder_flush(N,K);
      flush_classes(N,K,nnz,3);
   } break;
   case K_VECTORS: {
      vN=N; vK=K; vV=p->V; vcount=0; vy2=y; memset(vnnz,0,sizeof vnnz);
      vbits=calloc((size_t)(p->V>>3)+1,1); if(!vbits) abort();
      vec_rec(0,K);
      MC_ADD(c_vec,vcount); MC_ADD(c_eval,2*vcount);
      if (fails_here==0 && vcount!=p->V) mc_fail("pvq:vector_count","N=%d K=%d: %llu vectors with K pulses exist, V = %llu",N,K,(unsigned long long)vcount,(unsigned long long)p->V);
      free(vbits); flush_classes(N,K,vnnz,4);
   } break;
   }
   if(!mc_gcheck(&g)) mc_fail("pvq:decode_overrun","cwrsi wrote outside y[%d] (N=%d K=%d)",N,N,K);
   mc_gfree(&g);
}

static void add_item(int kind,int pair,uint64_t lo,uint64_t hi){
   static long cap; if(nitems==cap){ cap=cap?cap*2:4096; items=realloc(items,cap*sizeof *items); if(!items) abort(); }
   items[nitems].kind=kind; items[nitems].pair=pair; items[nitems].lo=lo; items[nitems].hi=hi; nitems++;
}

int main(int argc,char **argv){
   int i,j,q,n,chunk_log2; uint64_t sumV=0,sumfull=0; int nfull=0;
   mc_init(argc,argv,"C17","pvq");
   MC.part=mc_arg_s("--name","pvq");
   full_log2=(int)mc_arg("--full-log2",MC.tier?33:24);     /* walk every index when V <= 2^full_log2 (33 = always) */
   vec_log2=(int)mc_arg("--vec-log2",MC.tier?24:20);       /* vector-side enumeration when V <= 2^vec_log2 */
   stride_log2=(int)mc_arg("--stride-log2",20);
   edge_n=(int)mc_arg("--edge",4096);
   chunk_log2=(int)mc_arg("--chunk-log2",24);
   sample_mod=strcmp(MC.part,"pvq")?167:23;     /* the secondary builds contribute two samples, the main part more */
   c_eval=mc_counter("evaluations"); c_rt=mc_counter("index_roundtrips"); c_states=mc_counter("states"); c_vec=mc_counter("vector_roundtrips");
   c_coder=mc_counter("coder_roundtrips"); c_tab=mc_counter("table_words"); c_pairs_full=mc_counter("pairs_planned_full_walk"); c_sumV_full=mc_counter("sumV_planned_full_walk");
   classes=mc_set_new(18);
   c17_model_init();
   for(n=0;n<NROWS;n++){ row_s[n]=(int)((CELT_PVQ_U_ROW[n]+n)-CELT_PVQ_U_DATA); row_e[n]= n+1<NROWS ? (int)((CELT_PVQ_U_ROW[n+1]+n+1)-CELT_PVQ_U_DATA) : NDATA; }
   mode=opus_custom_mode_create(48000,960,NULL);
   if(!mode){ fprintf(stderr,"no static mode\n"); return 2; }
   /* reachable pairs */
   for(i=0;i<=mode->maxLM+1;i++) for(j=0;j<mode->nbEBands;j++){
      int N=(mode->eBands[j+1]-mode->eBands[j])<<i>>1, idx=mode->cache.index[i*mode->nbEBands+j]; const unsigned char *row;
      if (N<2||idx<0||idx>=mode->cache.size) continue;     /* N<2 is never PVQ-coded; cache shape is checked by the cache part */
      row=mode->cache.bits+idx;
      for(q=1;q<=row[0]&&idx+q<mode->cache.size;q++){
         int K=get_pulses(q),k2;
         for(k2=0;k2<npairs;k2++) if(pairs[k2].N==N&&pairs[k2].K==K) break;
         if(k2<npairs) continue;
         if (N>=MAXN||N>=C17_MN||K+1>=C17_MN||npairs>=4096){ mc_capped("pair outside harness model bounds"); continue; }
         pairs[npairs].N=N; pairs[npairs].K=K; pairs[npairs].lm1=i; pairs[npairs].band=j; pairs[npairs].V=mV(N,K); npairs++;
      }
   }
   add_item(K_STATIC,0,0,0);
   for(i=0;i<npairs;i++){
      uint64_t V=pairs[i].V, lo; int full = V < ((uint64_t)1<<32) && (full_log2>=33 || V <= ((uint64_t)1<<full_log2));
      pairs[i].full=full; if(V<C17_SAT) sumV+=V;
      if (V>=((uint64_t)1<<32)) continue;
      if (full){ nfull++; sumfull+=V; for(lo=0;lo<V;lo+=(uint64_t)1<<chunk_log2) add_item(K_RANGE,i,lo,(lo+((uint64_t)1<<chunk_log2)<V)?lo+((uint64_t)1<<chunk_log2):V); }
      else add_item(K_EDGE,i,0,0);
      add_item(K_CODER,i,0,0);
      if (V <= ((uint64_t)1<<vec_log2)) add_item(K_VECTORS,i,0,0);
   }
   *c_pairs_full=nfull; *c_sumV_full=(long)sumfull;
   mc_info("table: %d rows, %d words; reachable pairs=%d, sum V=%llu; fully walked pairs=%d (sum V=%llu); items=%ld; full<=2^%d vec<=2^%d",NROWS,NDATA,npairs,(unsigned long long)sumV,nfull,(unsigned long long)sumfull,nitems,full_log2,vec_log2);
   if (nfull<npairs){ char w[160]; snprintf(w,sizeof w,"%d of %d (N,K) pairs have V > 2^%d: boundary+stride index sets instead of all indices in this tier",npairs-nfull,npairs,full_log2); mc_info("%s",w); }
   mc_par(nitems,run_item,NULL);
   { mc_ctr *tr=mc_counter("transitions"),*dn=mc_counter("distinct_nontrivial"),*np=mc_counter("pairs"); *tr=*c_rt+*c_vec+*c_coder; *dn=mc_set_count(classes); *np=npairs; }
   return mc_finish();
}
