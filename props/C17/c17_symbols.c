/* C17 (Laplace and ICDF clauses).
 *
 * Laplace: for every (fs,decay) = (e_prob_model[LM][intra][2i]<<7, e_prob_model[LM][intra][2i+1]<<6), i=0..20 — the
 *   pairs quant_coarse_energy_impl()/unquant_coarse_energy() pass — every one of the 32768 probability points fm is
 *   presented to the library's ec_laplace_decode() through a constructed range-decoder state; the [fl,fh) it hands to
 *   ec_dec_update() (captured with -Wl,--wrap) must contain fm, be identical for all fm that decode to the same value,
 *   start exactly where the previous interval ended, never repeat a value, start at 0 and end at 32768 (tiling: no gap,
 *   no overlap).  Then every value v in [min-64,max+64] plus far-out values goes through ec_laplace_encode(): the
 *   interval given to ec_encode_bin() (captured) must be exactly the decoder's interval of the value written back
 *   ("documented clamping": same sign, never larger in magnitude, and untouched for |v| <= 16 — laplace.c:
 *   "LAPLACE_NMIN (16): the minimum number of guaranteed representable energy deltas (in one direction)"), and a real
 *   ec_enc_done / ec_dec_init / ec_laplace_decode round trip must return it; finally one multi-symbol stream per pair.
 * ICDF: every table listed by gen_icdf.py (c17_icdf_gen.h; names collected from the sources, lengths by sizeof):
 *   each table (each row of a 2-D table; each offset-delimited sub-table of the shell tables; each nVectors- / 9-entry
 *   sub-table of the NLSF codebooks, found through the silk_NLSF_CB_struct pointers) is strictly decreasing, ends at 0
 *   and starts below 1<<ftb; every pointer of a pointer array is the base of a collected table; silk_sign_iCDF (a list of
 *   first entries of two-entry tables {p,0}) has every entry > 0; every symbol of every table survives
 *   ec_enc_icdf -> ec_dec_icdf.  The last item re-runs gen_icdf.py --list on the tree and reports (as a cap, not a
 *   violation) any table name that is in the tree but not in the compiled header.
 */
#define C17_ICDF_INCLUDES
#include "c17_icdf_gen.h"
#undef C17_ICDF_INCLUDES
#include <string.h>
#include <stdio.h>
#include <stdlib.h>
#include "entenc.h"
#include "entdec.h"
#include "laplace.h"
#include "structs.h"
#include "mc.h"

/* ------------------------------------------------------------------ capture */
static struct { unsigned fl,fh,ft; int n; } capd, cape;
void __real_ec_dec_update(ec_dec *d,unsigned fl,unsigned fh,unsigned ft);
void __wrap_ec_dec_update(ec_dec *d,unsigned fl,unsigned fh,unsigned ft){ capd.fl=fl; capd.fh=fh; capd.ft=ft; capd.n++; __real_ec_dec_update(d,fl,fh,ft); }
void __real_ec_encode_bin(ec_enc *e,unsigned fl,unsigned fh,unsigned bits);
void __wrap_ec_encode_bin(ec_enc *e,unsigned fl,unsigned fh,unsigned bits){ cape.fl=fl; cape.fh=fh; cape.ft=bits; cape.n++; __real_ec_encode_bin(e,fl,fh,bits); }

static mc_ctr *c_eval,*c_dec,*c_enc,*c_sym,*c_tabs,*c_segs,*c_ent,*c_negminrange;
static mc_set *classes;

/* ------------------------------------------------------------------ Laplace */
#define VOFF 20000
#define DOC_NMIN 16        /* documented guarantee, laplace.c (pinned): at least 16 representable deltas in each direction */
static int iv_lo[2*VOFF+1], iv_hi[2*VOFF+1];   /* decoder interval of value v at [v+VOFF]; hi==0: value not in the alphabet */
static int nfail;
#define LF(sig,...) do{ if(nfail++<8) mc_fail(sig,__VA_ARGS__); }while(0)

static void laplace_pair(int lm,int intra,int band){
   const unsigned char *pm=e_prob_model[lm][intra]; unsigned fs=(unsigned)pm[2*band]<<7; int decay=pm[2*band+1]<<6;
   unsigned fm; int prev_v=0, have=0, vmin=0, vmax=0, nsym=0, v; unsigned prev_fh=0; uint64_t h=0;
   char id[96]; snprintf(id,sizeof id,"LM=%d %s band=%d fs=%u decay=%d",lm,intra?"intra":"inter",band,fs,decay);
   mc_case("laplace","%s",id); nfail=0;
   memset(iv_lo,0,sizeof iv_lo); memset(iv_hi,0,sizeof iv_hi);
   if (!(decay>0 && decay<=11456)) LF("laplace:param_range","%s: decay outside the documented (0,11456]",id);
   if (!(fs>0 && fs<32768)) LF("laplace:param_range","%s: fs outside (0,32768)",id);
   /* ---- decoder side: all 32768 probability points */
   for(fm=0;fm<32768;fm++){
      unsigned char z[8]={0,0,0,0,0,0,0,0}; ec_dec dec; int n0;
      ec_dec_init(&dec,z,8); dec.rng=32768u<<8; dec.val=(32767u-fm)*(dec.rng>>15);
      n0=capd.n; v=ec_laplace_decode(&dec,fs,decay); MC_INC(c_dec);
      if (capd.n!=n0+1){ LF("laplace:decode_protocol","%s fm=%u: %d calls of ec_dec_update",id,fm,capd.n-n0); continue; }
      if (capd.ft!=32768||!(capd.fl<=fm&&fm<capd.fh&&capd.fh<=32768)){ LF("laplace:decode_interval","%s fm=%u decodes to %d with [fl,fh)=[%u,%u) ft=%u not containing fm",id,fm,v,capd.fl,capd.fh,capd.ft); continue; }
      if (v<-VOFF||v>VOFF){ LF("laplace:decode_value","%s fm=%u decodes to %d",id,fm,v); continue; }
      if (!have || v!=prev_v || capd.fl!=(unsigned)iv_lo[prev_v+VOFF]){
         /* a new interval must begin exactly here, exactly where the previous one ended, with a fresh value */
         if (have && capd.fl!=prev_fh) LF("laplace:tiling_gap_overlap","%s: interval of %d is [%u,%u) but the previous one (value %d) ended at %u",id,v,capd.fl,capd.fh,prev_v,prev_fh);
         if (!have && capd.fl!=0) LF("laplace:tiling_start","%s: first interval starts at %u",id,capd.fl);
         if (capd.fl!=fm) LF("laplace:tiling_gap_overlap","%s: fm=%u is the first point of value %d but its interval starts at %u",id,fm,v,capd.fl);
         if (iv_hi[v+VOFF]) LF("laplace:value_twice","%s: value %d owns two intervals [%d,%d) and [%u,%u)",id,v,iv_lo[v+VOFF],iv_hi[v+VOFF],capd.fl,capd.fh);
         iv_lo[v+VOFF]=(int)capd.fl; iv_hi[v+VOFF]=(int)capd.fh; nsym++; MC_INC(c_sym);
         h=mc_mix(h,mc_mix((uint64_t)(v+VOFF),((uint64_t)capd.fl<<16)|capd.fh));
         if(!have||v<vmin) vmin=v; if(!have||v>vmax) vmax=v;
         have=1; prev_v=v; prev_fh=capd.fh;
      } else if (capd.fh!=prev_fh) LF("laplace:tiling_gap_overlap","%s: value %d reported with [%u,%u) and [%u,%u)",id,v,capd.fl,prev_fh,capd.fl,capd.fh);
   }
   if (prev_fh!=32768) LF("laplace:tiling_end","%s: intervals end at %u, not 32768",id,prev_fh);
   if (vmax<DOC_NMIN||vmin>-DOC_NMIN) LF("laplace:guaranteed_range","%s: decodable values are [%d,%d]; the documented guarantee is at least +-%d",id,vmin,vmax,DOC_NMIN);
   /* ---- encoder side */
   {
      static const int farv[]={32767,32768,65535,100000,1<<20};
      int lo=vmin-64, hi=vmax+64, k, nv=hi-lo+1+10;
      for(k=0;k<nv&&nfail<8;k++){
         int val = k<hi-lo+1 ? lo+k : ((k-(hi-lo+1))&1? -farv[(k-(hi-lo+1))>>1] : farv[(k-(hi-lo+1))>>1]);
         unsigned char buf[16]; ec_enc enc; ec_dec dec; int x=val, r, n0;
         memset(buf,0,sizeof buf); ec_enc_init(&enc,buf,sizeof buf);
         n0=cape.n; ec_laplace_encode(&enc,&x,fs,decay); MC_INC(c_enc);
         if (cape.n!=n0+1||cape.ft!=15||!(cape.fl<cape.fh&&cape.fh<=32768)){ LF("laplace:encode_interval","%s v=%d: ec_encode_bin called %d times with [%u,%u) bits=%u",id,val,cape.n-n0,cape.fl,cape.fh,cape.ft); continue; }
         if ((x>0)!=(val>0)||(x<0)!=(val<0)||abs(x)>abs(val)) { LF("laplace:clamp_shape","%s v=%d is written back as %d (sign / magnitude grows)",id,val,x); continue; }
         if (abs(val)<=DOC_NMIN && x!=val){ LF("laplace:clamp_inside_guarantee","%s v=%d (|v|<=%d) is clamped to %d",id,val,DOC_NMIN,x); continue; }
         if (val>=vmin&&val<=vmax&&iv_hi[val+VOFF]&&x!=val){ LF("laplace:clamp_representable","%s v=%d is decodable but the encoder clamps it to %d",id,val,x); continue; }
         if (x<-VOFF||x>VOFF||!iv_hi[x+VOFF]){ LF("laplace:encode_not_decodable","%s v=%d -> %d [%u,%u): no decoder interval for that value",id,val,x,cape.fl,cape.fh); continue; }
         if ((int)cape.fl!=iv_lo[x+VOFF]||(int)cape.fh!=iv_hi[x+VOFF]){ LF("laplace:encode_decode_interval","%s v=%d -> %d: encoder interval [%u,%u), decoder interval [%d,%d)",id,val,x,cape.fl,cape.fh,iv_lo[x+VOFF],iv_hi[x+VOFF]); continue; }
         ec_enc_done(&enc);
         if (ec_get_error(&enc)){ LF("laplace:coder_error","%s v=%d: encoder error",id,val); continue; }
         ec_dec_init(&dec,buf,sizeof buf); r=ec_laplace_decode(&dec,fs,decay);
         if (r!=x) LF("laplace:roundtrip","%s v=%d written back as %d decodes to %d",id,val,x,r);
      }
   }
   /* ---- one stream with many symbols */
   {
      unsigned char buf[2048]; ec_enc enc; ec_dec dec; int seq[400], n=0, k, step=(vmax-vmin)/300+1;
      memset(buf,0,sizeof buf); ec_enc_init(&enc,buf,sizeof buf);
      for(v=vmin-3;v<=vmax+3&&n<400;v+=step){ int x= (n&1)? v : -v; ec_laplace_encode(&enc,&x,fs,decay); seq[n++]=x; }
      ec_enc_done(&enc);
      if (ec_get_error(&enc)) LF("laplace:coder_error","%s: stream of %d symbols does not fit %d bytes",id,n,(int)sizeof buf);
      else { ec_dec_init(&dec,buf,sizeof buf); for(k=0;k<n;k++){ int r=ec_laplace_decode(&dec,fs,decay); MC_INC(c_dec); if(r!=seq[k]){ LF("laplace:stream_roundtrip","%s: symbol %d of the stream: wrote %d, read %d",id,k,seq[k],r); break; } } }
   }
   MC_MAX(c_negminrange,-(vmax<-vmin?vmax:-vmin));
   if (mc_set_add(classes,mc_mix(h,1)) && (lm*42+intra*21+band)%56==0)
      mc_sample("laplace %s: %d symbols, values [%d,%d], P(0)=[%d,%d) P(+1)=[%d,%d) P(-1)=[%d,%d) last=[%d,%d) (value %d); tiling of [0,32768) exact; encode(v) interval == decode interval for v in [%d,%d]",
                id,nsym,vmin,vmax,iv_lo[VOFF],iv_hi[VOFF],iv_lo[VOFF+1],iv_hi[VOFF+1],iv_lo[VOFF-1],iv_hi[VOFF-1],iv_lo[prev_v+VOFF],iv_hi[prev_v+VOFF],prev_v,vmin-64,vmax+64);
}

/* ------------------------------------------------------------------ ICDF tables */
typedef struct { const char *name; int kind, ftb; const char *file; const void *p; size_t bytes, esz, rowlen; } tab_t;
#define C17_K1(n,f,w) { #n, 1, f, w, n, sizeof(n), sizeof((n)[0]), sizeof(n)/sizeof((n)[0]) },
#define C17_K2(n,f,w) { #n, 2, f, w, n, sizeof(n), sizeof((n)[0][0]), sizeof((n)[0])/sizeof((n)[0][0]) },
#define C17_K3(n,f,w) { #n, 3, f, w, n, sizeof(n), sizeof(*(n)[0]), sizeof(n)/sizeof((n)[0]) },
#define C17_T(n,k,f,w) C17_K##k(n,f,w)
static const tab_t tabs[]={
#include "c17_icdf_gen.h"
};
#undef C17_T
#define NTABS ((int)(sizeof(tabs)/sizeof(tabs[0])))

static unsigned el(const tab_t *t,const void *base,size_t i){ return t->esz==1? ((const unsigned char*)base)[i] : ((const unsigned short*)base)[i]; }
static const char *elems(const tab_t *t,const void *base,size_t n){ static char b[1200]; size_t i; int k=0; for(i=0;i<n&&k<1100;i++) k+=sprintf(b+k,"%s%u",i?",":"",el(t,base,i)); return b; }

/* one table = n entries starting at entry offset off of t */
static void check_segment(const tab_t *t,size_t off,size_t n,int ftb,const char *why){
   const unsigned char *base=(const unsigned char*)t->p+off*t->esz; size_t i; int bad=0;
   MC_INC(c_segs); MC_ADD(c_ent,n); MC_ADD(c_eval,n);
   if (n==0){ mc_fail("icdf:empty","%s[%zu..) (%s): empty table",t->name,off,why); return; }
   if (el(t,base,n-1)!=0){ mc_fail("icdf:no_terminating_zero","%s[%zu..%zu) (%s) ends with %u, not 0: {%s}",t->name,off,off+n,why,el(t,base,n-1),elems(t,base,n)); bad=1; }
   for(i=1;i<n;i++) if(el(t,base,i)>=el(t,base,i-1)){ mc_fail("icdf:not_strictly_decreasing","%s[%zu..%zu) (%s): entry %zu (%u) >= entry %zu (%u): {%s}",t->name,off,off+n,why,i,el(t,base,i),i-1,el(t,base,i-1),elems(t,base,n)); bad=1; break; }
   if (el(t,base,0)>=(1u<<ftb)){ mc_fail("icdf:first_not_below_total","%s[%zu] = %u >= 1<<%d",t->name,off,el(t,base,0),ftb); bad=1; }
   if (bad) return;
   /* every symbol through the real range coder */
   {
      unsigned char buf[1024]; ec_enc enc; ec_dec dec; size_t s;
      memset(buf,0,sizeof buf); ec_enc_init(&enc,buf,sizeof buf);
      for(s=0;s<n;s++){ if(t->esz==1) ec_enc_icdf(&enc,(int)s,base,ftb); else ec_enc_icdf16(&enc,(int)s,(const opus_uint16*)base,ftb); }
      for(s=n;s-->0;){ if(t->esz==1) ec_enc_icdf(&enc,(int)s,base,ftb); else ec_enc_icdf16(&enc,(int)s,(const opus_uint16*)base,ftb); }
      ec_enc_done(&enc);
      if (ec_get_error(&enc)) { mc_fail("icdf:coder_error","%s[%zu..%zu): %zu symbols do not fit 1024 bytes",t->name,off,off+n,2*n); return; }
      ec_dec_init(&dec,buf,sizeof buf);
      for(s=0;s<2*n;s++){ int want=(int)(s<n?s:2*n-1-s), got= t->esz==1? ec_dec_icdf(&dec,base,ftb) : ec_dec_icdf16(&dec,(const opus_uint16*)base,ftb); MC_INC(c_eval);
         if(got!=want){ mc_fail("icdf:coder_roundtrip","%s[%zu..%zu) ftb=%d: symbol %d decodes as %d: {%s}",t->name,off,off+n,ftb,want,got,elems(t,base,n)); return; } }
   }
   if (mc_set_add(classes,mc_mix(mc_hash(base,n*t->esz,5),mc_mix(n,ftb))) && off==0 && (t-tabs)%9==2)
      mc_sample("icdf %s[%zu..%zu) (%s, %s) ftb=%d = {%s}: strictly decreasing, ends at 0, %zu symbols round-trip",t->name,off,off+n,why,t->file,ftb,elems(t,base,n),n);
}

static const tab_t *find_base(const void *p){ int i; for(i=0;i<NTABS;i++) if(tabs[i].kind!=3 && tabs[i].p==p) return &tabs[i]; return NULL; }

static void icdf_table(int ti){
   const tab_t *t=&tabs[ti]; int ftb = t->ftb? t->ftb : (t->esz==1?8:15); size_t total=t->bytes/(t->kind==3?sizeof(void*):t->esz), i;
   mc_case("icdf","table %s (%s)",t->name,t->file);
   MC_INC(c_tabs);
   if (t->kind==3){
      /* array of pointers: each must be the base of a collected table (which is checked as its own item) */
      const void *const *pp=(const void *const*)t->p;
      for(i=0;i<total;i++){ MC_INC(c_eval); if(!find_base(pp[i])) mc_fail("icdf:pointer_target","%s[%zu] does not point at the start of any collected ICDF table",t->name,i); }
      return;
   }
   if (t->kind==2){ size_t rows=total/t->rowlen,r; for(r=0;r<rows;r++) check_segment(t,r*t->rowlen,t->rowlen,ftb,"row of 2-D table"); return; }
   if (!strcmp(t->name,"silk_sign_iCDF")){
      /* code_signs.c builds {silk_sign_iCDF[i], 0}: strictly decreasing <=> entry > 0 */
      for(i=0;i<total;i++){ MC_INC(c_eval); MC_INC(c_ent); if(el(t,t->p,i)==0) mc_fail("icdf:not_strictly_decreasing","silk_sign_iCDF[%zu] = 0: the two-entry table {p,0} built from it is not strictly decreasing",i); }
      MC_INC(c_segs);
      if (mc_set_add(classes,mc_hash(t->p,total,9))) mc_sample("icdf silk_sign_iCDF[0..%zu): every entry > 0 (first entries of two-entry tables {p,0})",total);
      return;
   }
   if (!strncmp(t->name,"silk_shell_code_table",21) && t->name[21]>='0' && t->name[21]<='9'){
      /* shell_coder.c: sub-table for p pulses (p=1..SILK_MAX_PULSES) starts at silk_shell_code_table_offsets[p], has p+1 symbols */
      size_t np=sizeof(silk_shell_code_table_offsets)/sizeof(silk_shell_code_table_offsets[0]), p, covered=0;
      for(p=1;p<np;p++){
         size_t off=silk_shell_code_table_offsets[p];
         if (off+p+1>total){ mc_fail("icdf:subtable_outside","%s: sub-table for %zu pulses [%zu,%zu) leaves the %zu-entry array",t->name,p,off,off+p+1,total); continue; }
         if (off!=covered) mc_fail("icdf:subtable_layout","%s: sub-table for %zu pulses starts at %zu, previous ended at %zu",t->name,p,off,covered);
         check_segment(t,off,p+1,ftb,"shell sub-table"); covered=off+p+1;
      }
      if (covered!=total) mc_fail("icdf:subtable_layout","%s: sub-tables cover %zu of %zu entries",t->name,covered,total);
      return;
   }
   {
      /* NLSF codebooks: layout comes from the codebook struct that points at the table */
      const silk_NLSF_CB_struct *cbs[2]={&silk_NLSF_CB_NB_MB,&silk_NLSF_CB_WB}; int c;
      for(c=0;c<2;c++){
         if (cbs[c]->CB1_iCDF==t->p){ size_t nv=cbs[c]->nVectors,k; if(nv==0||total%nv){ mc_fail("icdf:subtable_layout","%s: %zu entries, nVectors=%zu",t->name,total,nv); return; } for(k=0;k<total/nv;k++) check_segment(t,k*nv,nv,ftb,"NLSF CB1 sub-table (nVectors)"); return; }
         if (cbs[c]->ec_iCDF==t->p){ size_t nv=2*NLSF_QUANT_MAX_AMPLITUDE+1,k; if(total%nv){ mc_fail("icdf:subtable_layout","%s: %zu entries, stride %zu",t->name,total,nv); return; } for(k=0;k<total/nv;k++) check_segment(t,k*nv,nv,ftb,"NLSF CB2 sub-table (2*NLSF_QUANT_MAX_AMPLITUDE+1)"); return; }
      }
   }
   check_segment(t,0,total,ftb,"whole array");
}

/* staleness of the generated list: names in the tree vs names compiled in */
static void stale_check(void){
   char cmd[1200], line[600], dir[800]; FILE *f; const char *sl; int n=0, missing=0;
   mc_case("icdf","gen_icdf.py --list");
   snprintf(dir,sizeof dir,"%s",__FILE__); sl=strrchr(dir,'/'); if(sl) dir[sl-dir]=0; else strcpy(dir,".");
   snprintf(cmd,sizeof cmd,"python3 '%s/gen_icdf.py' --repo '%s' --list 2>/dev/null",dir,VERIF_REPO);
   f=popen(cmd,"r");
   if(!f){ mc_capped("could not run gen_icdf.py --list: ICDF table list not re-validated against the tree"); return; }
   while(fgets(line,sizeof line,f)){
      char name[300]; int i;
      if (sscanf(line,"%299s",name)!=1) continue; n++;
      for(i=0;i<NTABS;i++) if(!strcmp(tabs[i].name,name)) break;
      if (i==NTABS){ char w[160]; missing++; snprintf(w,sizeof w,"ICDF table %s exists in the tree but not in c17_icdf_gen.h (regenerate it)",name); mc_capped(w); mc_info("%s",w); }
   }
   pclose(f);
   if (n==0) mc_capped("gen_icdf.py --list produced nothing: ICDF table list not re-validated against the tree");
   else mc_info("gen_icdf.py --list: %d table names in the tree, %d compiled in, %d missing",n,NTABS,missing);
}

#define NPAIRS (4*2*21)
static void run_item(long it,void *ctx){
   (void)ctx;
   if (it<NPAIRS) laplace_pair((int)(it/42),(int)(it/21)%2,(int)(it%21));
   else if (it<NPAIRS+NTABS) icdf_table((int)(it-NPAIRS));
   else stale_check();
}

int main(int argc,char **argv){
   mc_init(argc,argv,"C17","symbols");
   MC.part=mc_arg_s("--name","symbols");
   c_eval=mc_counter("evaluations"); c_dec=mc_counter("laplace_decodes"); c_enc=mc_counter("laplace_encodes"); c_sym=mc_counter("laplace_symbols");
   c_tabs=mc_counter("icdf_tables"); c_segs=mc_counter("icdf_subtables"); c_ent=mc_counter("icdf_entries");
   c_negminrange=mc_counter("laplace_neg_smallest_max_abs_value"); *c_negminrange=-100000;
   classes=mc_set_new(14);
   if (sizeof(e_prob_model)!=4*2*42) { fprintf(stderr,"e_prob_model shape changed\n"); return 2; }
   mc_par(NPAIRS+NTABS+1,run_item,NULL);
   { mc_ctr *st=mc_counter("states"),*tr=mc_counter("transitions"),*dn=mc_counter("distinct_nontrivial");
     *c_eval+=*c_dec+*c_enc; *st=*c_sym+*c_ent; *tr=*c_dec+*c_enc; *dn=mc_set_count(classes); }
   return mc_finish();
}
