/* c17_model.h — independent 64-bit model of the PVQ counting functions (C17).
 *
 * Written from the definition only (cwrs.c header comment / RFC 6716 4.3.4.2):
 *    U(0,0)=1, U(0,K>0)=0, U(N>0,0)=0,
 *    U(N,K) = U(N-1,K) + U(N,K-1) + U(N-1,K-1)           (N>0, K>0)
 *    V(N,K) = U(N,K) + U(N,K+1)   = number of integer vectors of dimension N with sum|y| = K
 * computed with saturating 64-bit additions (C17_SAT marks "does not fit 62 bits", far above 2^32);
 * no table, no macro and no 32-bit arithmetic shared with the code under test.
 */
#ifndef C17_MODEL_H
#define C17_MODEL_H
#include <stdint.h>
#include <stdlib.h>

#define C17_SAT ((uint64_t)1<<62)
#define C17_MN 416      /* model covers n,k in [0,C17_MN) — twice the largest Opus Custom band (208) */
static uint64_t *c17_U;  /* [C17_MN][C17_MN] */
static inline uint64_t c17_sadd(uint64_t a,uint64_t b){ uint64_t s=a+b; return (a>=C17_SAT||b>=C17_SAT||s>=C17_SAT)?C17_SAT:s; }
static inline uint64_t mU(int n,int k){ return c17_U[(size_t)n*C17_MN+k]; }
static inline uint64_t mV(int n,int k){ return c17_sadd(mU(n,k),mU(n,k+1)); }   /* needs k+1 < C17_MN */
static void c17_model_init(void){
   int n,k;
   c17_U = (uint64_t*)calloc((size_t)C17_MN*C17_MN,sizeof(uint64_t));
   if(!c17_U) abort();
   c17_U[0]=1;
   for(n=1;n<C17_MN;n++) for(k=1;k<C17_MN;k++)
      c17_U[(size_t)n*C17_MN+k]=c17_sadd(c17_sadd(mU(n-1,k),mU(n,k-1)),mU(n-1,k-1));
}
/* V by its own recurrence V(N,K)=V(N-1,K)+V(N,K-1)+V(N-1,K-1), V(N,0)=1, V(0,K>0)=0 — a second, separately
   coded route (rolling row, any N,K) used to cross-check the model and for the fits_in32 oracle */
static uint64_t c17_V_by_recurrence(int N,int K){
   uint64_t *row=(uint64_t*)calloc((size_t)K+1,sizeof(uint64_t)), r; int n,k;
   if(!row) abort();
   for(k=0;k<=K;k++) row[k]= k==0;                 /* N=0 */
   for(n=1;n<=N;n++){ uint64_t diag=row[0]; row[0]=1; for(k=1;k<=K;k++){ uint64_t up=row[k]; row[k]=c17_sadd(c17_sadd(up,row[k-1]),diag); diag=up; } }
   r=row[K]; free(row); return r;
}
#endif
