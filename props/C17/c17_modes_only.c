/* C17 side translation unit (custom variant only): celt/modes.c compiled with CUSTOM_MODES_ONLY so that
 * opus_custom_mode_create(48000,960) *recomputes* eBands, allocVectors, logN and — through the library's
 * compute_pulse_cache() — cache.index/bits/caps instead of returning the static tables.  The two external functions
 * are renamed so that the library's own opus_custom_mode_create (which returns the static mode) stays usable next to it.
 */
#ifdef HAVE_CONFIG_H
#include "config.h"
#endif
#ifdef CUSTOM_MODES
#define CUSTOM_MODES_ONLY 1
#define opus_custom_mode_create  c17_regen_mode_create
#define opus_custom_mode_destroy c17_regen_mode_destroy
#include "celt/modes.c"
#else
typedef int c17_modes_only_unused;
#endif
