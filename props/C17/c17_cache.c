/* C17 (cache clause) — "the bits-to-pulses cache is monotone and consistent with V", and (custom variant) the static
 * cache equals the one the library's own compute_pulse_cache() regenerates; fits_in32() agrees with the 64-bit V.
 *
 * Items (E3, plain enumeration over every word of the static mode's cache):
 *   0 shape     : every cache.index word: -1 exactly for N=0, otherwise a row [idx, idx+row[0]] inside cache.bits, row[0] <= MAX_PSEUDO,
 *                 bands of equal N share identical rows.
 *   1 bits      : every cache.bits word: row[q] non-decreasing in q; V(N,get_pulses(q)) < 2^32 (64-bit model);
 *                 row[q]+1 is a conservative 1/8-bit estimate of log2 V: 0 <= row[q]+1 - 8*log2(V) <= TOL.
 *   2 lookups   : bits2pulses()/pulses2bits() (the real inlines) for every band, LM and every bit budget 0..max+64:
 *                 result inside [0,row[0]], non-decreasing in the budget, and no other q is closer to the budget.
 *   custom variant (OPUS_CUSTOM_MODES=ON; modes.c re-compiled with CUSTOM_MODES_ONLY in c17_modes_only.c):
 *   3 regen     : every scalar and every word of eBands, allocVectors, logN, cache.index, cache.bits, cache.caps of the
 *                 recomputed 48000/960 mode equals the static mode.
 *   4 log2      : get_required_bits()/log2_frac() for every cached N and every K up to the largest cached K: same TOL rule.
 *   5.. fits    : fits_in32(n,k) == (V(n,k) < 2^32) for all (n,k) in [0,32767]^2 with min(n,k) <= 15 and all of [0,640]^2
 *                 (fits_in32 returns 0 whenever min(n,k) >= 14, and V(14,14) > 2^32 is checked, so by monotonicity of V the
 *                 rest of the square follows).
 * TOL: log2_frac is documented (cwrs.c) to overestimate by at most ~1 unit of the last fractional bit; measured maximum of
 * row[q]+1-8*log2(V) over the whole static cache on the unchanged tree: 1.000027 (counter max_bits_minus_log2V_micro);
 * TOL = 2.0 (>= 2x margin, G1).
 */
#ifdef HAVE_CONFIG_H
#include "config.h"
#endif
#ifdef CUSTOM_MODES
#include "celt/rate.c"          /* reach the static fits_in32(); shadows the archive member rate.o (same source) */
#else
#include "rate.h"
#endif
#include <math.h>
#include <string.h>
#include <stdio.h>
#include "modes.h"
#include "cwrs.h"
#include "mc.h"
#include "c17_model.h"

#define TOL 2.0
static const CELTMode *m;
static mc_ctr *c_eval,*c_words,*c_lookups,*c_fits,*c_maxdev;
static mc_set *classes;
static int nf;
#define CF(sig,...) do{ if(nf++<10) mc_fail(sig,__VA_ARGS__); }while(0)

static int widthN(int i,int j){ return (m->eBands[j+1]-m->eBands[j])<<i>>1; }
static const unsigned char *rowof(int i,int j){ int idx=m->cache.index[i*m->nbEBands+j]; return idx<0?NULL:m->cache.bits+idx; }
static int shape_ok;
/* a row occupies bits[idx .. idx+bits[idx]] */
static int row_bad(int idx){ return idx<0 || idx>=m->cache.size || idx+m->cache.bits[idx] > m->cache.size-1; }

static void check_shape(void){
   int i,j,i2,j2,nb=m->nbEBands;
   mc_case("cache","shape"); nf=0;
   if (nb<1||nb>64||m->maxLM<0||m->maxLM>4||m->cache.size<1){ CF("cache:mode_shape","nbEBands=%d maxLM=%d cache.size=%d",nb,m->maxLM,m->cache.size); shape_ok=0; return; }
   for(i=0;i<=m->maxLM+1;i++) for(j=0;j<nb;j++){
      int N=widthN(i,j), idx=m->cache.index[i*nb+j]; MC_INC(c_words); MC_INC(c_eval);
      if (N==0){ if(idx!=-1) CF("cache:index_for_empty_band","index[LM=%d][band %d] = %d for N=0",i-1,j,idx); continue; }
      if (row_bad(idx)){ CF("cache:index_range","index[LM=%d][band %d] = %d, row length %d, cache.size %d",i-1,j,idx,idx>=0&&idx<m->cache.size?m->cache.bits[idx]:-1,m->cache.size); shape_ok=0; continue; }
      if (m->cache.bits[idx]>MAX_PSEUDO||m->cache.bits[idx]>=(1<<LOG_MAX_PSEUDO)) CF("cache:row_length","row for N=%d has %d pseudo-pulse entries (MAX_PSEUDO=%d, search depth covers < %d)",N,m->cache.bits[idx],MAX_PSEUDO,1<<LOG_MAX_PSEUDO);
   }
   if(!shape_ok) return;
   for(i=0;i<=m->maxLM+1;i++) for(j=0;j<nb;j++) for(i2=0;i2<=i;i2++) for(j2=0;j2<nb;j2++){
      const unsigned char *a=rowof(i,j),*b=rowof(i2,j2);
      if (a&&b&&widthN(i,j)==widthN(i2,j2)&&(a[0]!=b[0]||memcmp(a,b,a[0]+1))) CF("cache:rows_differ_for_same_N","N=%d: row of (LM=%d,band %d) differs from row of (LM=%d,band %d)",widthN(i,j),i-1,j,i2-1,j2);
   }
}

static double dev_of(int bits_plus1,uint64_t V){ return (double)((long double)bits_plus1 - 8.0L*log2l((long double)V)); }

static void check_bits(void){
   int i,j,q,nb=m->nbEBands; static char seenN[C17_MN];
   mc_case("cache","bits"); nf=0;
   for(i=0;i<=m->maxLM+1;i++) for(j=0;j<nb;j++){
      int N=widthN(i,j); const unsigned char *row=rowof(i,j); uint64_t h;
      if(!row||N<1||N>=C17_MN||seenN[N]) continue; seenN[N]=1;
      h=mc_mix(N,row[0]);
      for(q=1;q<=row[0];q++){
         int K=get_pulses(q); uint64_t V; double d;
         MC_INC(c_words); MC_INC(c_eval);
         if (K+1>=C17_MN){ mc_capped("cached K beyond model bound"); break; }
         V=mV(N,K);
         if (q>1&&row[q]<row[q-1]) CF("cache:not_monotone","N=%d: bits[%d]=%d < bits[%d]=%d (K=%d vs %d)",N,q,row[q],q-1,row[q-1],K,get_pulses(q-1));
         if (q>1&&K<=get_pulses(q-1)) CF("cache:pulses_not_increasing","get_pulses(%d)=%d <= get_pulses(%d)=%d",q,K,q-1,get_pulses(q-1));
         if (V>=((uint64_t)1<<32)){ CF("cache:K_overflows_V","N=%d: cached pseudo-pulse %d is K=%d with V=%llu >= 2^32",N,q,K,(unsigned long long)V); continue; }
         d=dev_of(row[q]+1,V);
         if (d*1e6>(double)*c_maxdev) MC_MAX(c_maxdev,(long)(d*1e6));
         if (d<-1e-9||d>TOL) CF("cache:bits_inconsistent_with_V","N=%d K=%d: cache says %d/8 bits, log2 V(N,K)=%.4f/8 bits (V=%llu)",N,K,row[q]+1,(double)(8.0L*log2l((long double)V)),(unsigned long long)V);
         h=mc_mix(h,row[q]);
      }
#ifdef CUSTOM_MODES
      mc_set_add(classes,h);       /* the custom part keeps its sample slots for the regeneration / fits_in32 cases */
#else
      if (mc_set_add(classes,h) && (N==2||N==8||N==22||N==176||N==1))
         mc_sample("cache row N=%d (LM=%d band %d): %d pseudo-pulse entries, K up to %d, bits-1 = %d..%d, monotone, each within [0,%.1f]/8 bit above log2 V",N,i-1,j,row[0],get_pulses(row[0]),row[1],row[row[0]],TOL);
#endif
   }
}

static void check_lookups(void){
   int LM,j,b,q,nb=m->nbEBands;
   mc_case("cache","bits2pulses"); nf=0;
   for(LM=0;LM<=m->maxLM;LM++) for(j=0;j<nb;j++){
      const unsigned char *row=rowof(LM+1,j); int prev=0, maxb;
      if(!row) continue;
      maxb=row[row[0]]+1+64;
      for(b=0;b<=maxb;b++){
         int best=1<<30, mine, cost;
         q=bits2pulses(m,j,LM,b); MC_INC(c_lookups); MC_INC(c_eval);
         if (q<0||q>row[0]){ CF("cache:bits2pulses_range","band %d LM=%d bits=%d -> %d outside [0,%d]",j,LM,b,q,row[0]); continue; }
         if (q<prev) CF("cache:bits2pulses_not_monotone","band %d LM=%d: bits=%d -> %d but bits=%d -> %d",j,LM,b-1,prev,b,q);
         prev=q;
         cost=pulses2bits(m,j,LM,q);
         if (cost!=(q?row[q]+1:0)) CF("cache:pulses2bits","band %d LM=%d q=%d: pulses2bits=%d, cache word+1=%d",j,LM,q,cost,q?row[q]+1:0);
         mine=abs(cost-b);
         { int q2; for(q2=0;q2<=row[0];q2++){ int c2=q2?row[q2]+1:0; if(abs(c2-b)<best) best=abs(c2-b); } }
         if (mine!=best) CF("cache:bits2pulses_not_nearest","band %d LM=%d bits=%d -> q=%d (cost %d) but another entry is closer (distance %d vs %d)",j,LM,b,q,cost,best,mine);
         mc_set_add(classes,mc_mix(mc_mix(widthN(LM+1,j),q),77));
      }
   }
   mc_sample("bits2pulses: band 13 LM=3 (N=%d): bits=200 -> q=%d (K=%d, cost %d); monotone and nearest for all budgets 0..%d",widthN(4,13),bits2pulses(m,13,3,200),get_pulses(bits2pulses(m,13,3,200)),pulses2bits(m,13,3,bits2pulses(m,13,3,200)),rowof(4,13)?rowof(4,13)[rowof(4,13)[0]]+65:0);
}

#ifdef CUSTOM_MODES
CELTMode *c17_regen_mode_create(opus_int32 Fs,int frame_size,int *error);
void c17_regen_mode_destroy(CELTMode *mode);
#define CMPS(f) do{ MC_INC(c_eval); if(r->f!=m->f) CF("cache:regen_mismatch:" #f,"recomputed %s = %ld, static %ld",#f,(long)r->f,(long)m->f); }while(0)
#define CMPA(f,n) do{ long k_; for(k_=0;k_<(long)(n);k_++){ MC_INC(c_words); MC_INC(c_eval); if(r->f[k_]!=m->f[k_]){ CF("cache:regen_mismatch:" #f,"recomputed %s[%ld] = %ld, static %ld",#f,k_,(long)r->f[k_],(long)m->f[k_]); break; } } }while(0)
static void check_regen(void){
   int err=0; CELTMode *r; int nb;
   mc_case("cache","regenerate 48000/960 with CUSTOM_MODES_ONLY"); nf=0;
   r=c17_regen_mode_create(48000,960,&err);
   if(!r||err){ mc_fail("cache:regen_failed","recomputing the 48000/960 mode failed (err=%d)",err); return; }
   if((const CELTMode*)r==m){ fprintf(stderr,"regen returned the static mode\n"); exit(2); }
   CMPS(Fs); CMPS(overlap); CMPS(nbEBands); CMPS(effEBands); CMPS(maxLM); CMPS(nbShortMdcts); CMPS(shortMdctSize); CMPS(nbAllocVectors); CMPS(cache.size);
   if (r->nbEBands!=m->nbEBands||r->maxLM!=m->maxLM||r->cache.size!=m->cache.size||r->nbAllocVectors!=m->nbAllocVectors){ c17_regen_mode_destroy(r); return; }
   nb=m->nbEBands;
   CMPA(eBands,nb+1); CMPA(allocVectors,m->nbAllocVectors*nb); CMPA(logN,nb);
   CMPA(cache.index,(m->maxLM+2)*nb); CMPA(cache.bits,m->cache.size); CMPA(cache.caps,(m->maxLM+1)*2*nb);
   mc_sample("regenerated 48000/960 mode: nbEBands=%d cache.size=%d; eBands/allocVectors/logN/cache.index/cache.bits/cache.caps word-for-word equal to the static tables (e.g. caps[0..3]=%d,%d,%d,%d)",nb,r->cache.size,r->cache.caps[0],r->cache.caps[1],r->cache.caps[2],r->cache.caps[3]);
   c17_regen_mode_destroy(r);
}
static void check_log2(void){
   int i,j,k,nb=m->nbEBands; static char seenN[C17_MN];
   mc_case("cache","get_required_bits / log2_frac"); nf=0;
   for(i=0;i<=m->maxLM+1;i++) for(j=0;j<nb;j++){
      int N=widthN(i,j),maxK; const unsigned char *row=rowof(i,j); opus_int16 tmp[CELT_MAX_PULSES+1];
      if(!row||N<1||N>=C17_MN||seenN[N]||!row[0]) continue; seenN[N]=1;
      maxK=get_pulses(row[0]); if(maxK>CELT_MAX_PULSES){ CF("cache:K_above_CELT_MAX_PULSES","N=%d caches K=%d",N,maxK); continue; }
      get_required_bits(tmp,N,maxK,BITRES);
      for(k=1;k<=maxK;k++){ uint64_t V=mV(N,k); double d; MC_INC(c_eval);
         if (V>=((uint64_t)1<<32)){ CF("cache:K_overflows_V","N=%d K=%d below the cached maximum has V >= 2^32",N,k); continue; }
         d=dev_of(tmp[k],V);
         if (tmp[k]!=log2_frac((opus_uint32)V,BITRES)) CF("cache:get_required_bits","N=%d K=%d: get_required_bits=%d, log2_frac(V)=%d",N,k,tmp[k],log2_frac((opus_uint32)V,BITRES));
         if (d<-1e-9||d>TOL) CF("cache:log2_frac_inconsistent_with_V","N=%d K=%d: log2_frac(V=%llu,3)=%d, exact %.4f",N,k,(unsigned long long)V,tmp[k],(double)(8.0L*log2l((long double)V))); }
   }
}
/* fits_in32 over a slab: item s covers n in [s*SLAB,(s+1)*SLAB) for the k<=15 strip (rolling recurrence over n) */
#define FMAX 32767
static void check_fits_strip_k(void){      /* all n in [0,32767], k in [0,15] */
   uint64_t row[17]; int n,k; mc_case("cache","fits_in32 strip k<=15"); nf=0;
   for(k=0;k<=16;k++) row[k]=k==0;                                   /* V(0,k) */
   for(n=0;n<=FMAX;n++){
      if(n>0){ uint64_t diag=row[0]; row[0]=1; for(k=1;k<=16;k++){ uint64_t up=row[k]; row[k]=c17_sadd(c17_sadd(up,row[k-1]),diag); diag=up; } }
      for(k=0;k<=15;k++){ int f=fits_in32(n,k), want=row[k]<((uint64_t)1<<32); MC_INC(c_fits); MC_INC(c_eval);
         if(f!=want) CF("cache:fits_in32","fits_in32(%d,%d)=%d but V=%llu%s",n,k,f,(unsigned long long)row[k],row[k]>=C17_SAT?"+":""); }
   }
}
static void check_fits_strip_n(void){      /* all k in [0,32767], n in [0,15] */
   uint64_t *row=calloc(FMAX+2,sizeof *row); int n,k; mc_case("cache","fits_in32 strip n<=15"); nf=0;
   for(k=0;k<=FMAX;k++) row[k]=k==0;
   for(n=0;n<=15;n++){
      if(n>0){ uint64_t diag=row[0]; row[0]=1; for(k=1;k<=FMAX;k++){ uint64_t up=row[k]; row[k]=c17_sadd(c17_sadd(up,row[k-1]),diag); diag=up; } }
      for(k=0;k<=FMAX;k++){ int f=fits_in32(n,k), want=row[k]<((uint64_t)1<<32); MC_INC(c_fits); MC_INC(c_eval);
         if(f!=want) CF("cache:fits_in32","fits_in32(%d,%d)=%d but V=%llu%s",n,k,f,(unsigned long long)row[k],row[k]>=C17_SAT?"+":""); }
   }
   free(row);
}
static void check_fits_square(void){       /* [0,640]^2, and V(14,14) >= 2^32 */
   enum { S=640 }; uint64_t *row=calloc(S+2,sizeof *row); int n,k; mc_case("cache","fits_in32 square"); nf=0;
   if (mV(14,14)<((uint64_t)1<<32)) CF("cache:fits_in32","model: V(14,14) fits 32 bits?");
   for(k=0;k<=S;k++) row[k]=k==0;
   for(n=0;n<=S;n++){
      if(n>0){ uint64_t diag=row[0]; row[0]=1; for(k=1;k<=S;k++){ uint64_t up=row[k]; row[k]=c17_sadd(c17_sadd(up,row[k-1]),diag); diag=up; } }
      for(k=0;k<=S;k++){ int f=fits_in32(n,k), want=row[k]<((uint64_t)1<<32); MC_INC(c_fits); MC_INC(c_eval);
         if(n<C17_MN&&k+1<C17_MN&&row[k]!=mV(n,k)&&!(row[k]>=C17_SAT&&mV(n,k)>=C17_SAT)){ fprintf(stderr,"model self-check failed at %d,%d\n",n,k); exit(2); }
         if(f!=want) CF("cache:fits_in32","fits_in32(%d,%d)=%d but V=%llu%s",n,k,f,(unsigned long long)row[k],row[k]>=C17_SAT?"+":""); }
   }
   free(row);
   mc_sample("fits_in32: e.g. fits_in32(176,4)=%d V=%llu; fits_in32(176,5)=%d V=%llu; fits_in32(8,36)=%d fits_in32(8,37)=%d",fits_in32(176,4),(unsigned long long)mV(176,4),fits_in32(176,5),(unsigned long long)mV(176,5),fits_in32(8,36),fits_in32(8,37));
}
#endif

static void run_item(long it,void *ctx){
   (void)ctx;
   switch(it){
   case 0: check_shape(); break;
   case 1: if(shape_ok) check_bits(); break;
   case 2: if(shape_ok) check_lookups(); break;
#ifdef CUSTOM_MODES
   case 3: check_regen(); break;
   case 4: if(shape_ok) check_log2(); break;
   case 5: check_fits_strip_k(); break;
   case 6: check_fits_strip_n(); break;
   case 7: check_fits_square(); break;
#endif
   }
}

int main(int argc,char **argv){
   long nitems=3;
   mc_init(argc,argv,"C17","cache");
   MC.part=mc_arg_s("--name","cache");
   c_eval=mc_counter("evaluations"); c_words=mc_counter("cache_words"); c_lookups=mc_counter("bits2pulses_lookups"); c_fits=mc_counter("fits_in32_cells"); c_maxdev=mc_counter("max_bits_minus_log2V_micro");
   classes=mc_set_new(14);
   c17_model_init();
   m=opus_custom_mode_create(48000,960,NULL);
   if(!m){ fprintf(stderr,"no static mode\n"); return 2; }
   /* shape is validated in-process first so that later items never index outside the static arrays */
   shape_ok=1; { int i,j; if(m->nbEBands<1||m->nbEBands>64||m->maxLM<0||m->maxLM>4||m->cache.size<1) shape_ok=0; else for(i=0;i<=m->maxLM+1;i++) for(j=0;j<m->nbEBands;j++){ int idx=m->cache.index[i*m->nbEBands+j]; if(widthN(i,j)>0&&row_bad(idx)) shape_ok=0; } }
#ifdef CUSTOM_MODES
   nitems=8;
   mc_info("custom variant: regenerated-mode comparison, log2_frac and fits_in32 checks enabled");
#else
   mc_info("non-custom build: static cache vs 64-bit V only (regeneration runs in the custom part)");
#endif
   mc_par(nitems,run_item,NULL);
   { mc_ctr *st=mc_counter("states"),*tr=mc_counter("transitions"),*dn=mc_counter("distinct_nontrivial"); *st=*c_words; *tr=*c_lookups+*c_fits; *dn=mc_set_count(classes); }
   return mc_finish();
}
