/* C08 — range coder: the decoder inverts the encoder symbol for symbol, within budget.
 *
 * Explored object: the REAL ec_enc / ec_dec of $VERIF_REPO (celt/entenc.c, entdec.c, entcode.c inside libopus.a,
 * ASan-instrumented build), driven through their public ec_* entry points only.
 *
 * Parts (selected with --mode):
 *  e1  explicit-state search: every operation sequence of length 1..D over the alphabet below, from the initial
 *      encoder state, for every buffer size in --sizes.  DFS with snapshot stack (the encoder state is the ec_enc
 *      struct plus the live bytes of its buffer: front [0,offs) and back [storage-end_offs,storage); everything else
 *      in the buffer is dead, by inspection of entenc.c, and never restored).  Every node of the tree is a complete
 *      sequence and is verified (ec_enc_done on a copy + mirror decode).  The shared visited set only COUNTS distinct
 *      encoder states (struct with the buf pointer dropped + live bytes); it never prunes, because the mirror-decoder
 *      oracle depends on the operation history, not only on the encoder state.
 *  e2  deviation-bounded: filler^H (H=48) with <=k positions replaced by any alphabet op, four fillers taken from the
 *      code's hard cases (see FILL[]), verified at full length and right after every deviation.  Only the EXPANDED states
 *      (those at which deviations are still branched from, plus every prefix of the undeviated run) enter the visited
 *      set; the states along the deterministic filler tail after the last deviation are counted as transitions only
 *      (there are ~10^9 of them in the thorough tier, all distinct, which no exact set can hold).
 *  e3  ec_tell_frac over every 16-bit normalised range value x every ilog class (x low bits all-0 / all-1 x several
 *      nbits_total) against the RFC 6716 4.1.6.2 text formula (rc_ref.h); thorough: every rng in (2^23,2^31].
 *
 * Oracle (clauses of the statement, nothing else):
 *  V  enc.error==0 after ec_enc_done  =>  ec_dec on the finished buffer, stepped with the same call list, returns
 *     exactly the encoded values (after patch_initial_bits: the patched values, see patch model below)
 *  T  after every operation encoder and decoder agree on ec_tell, ec_tell_frac and rng (checked when error==0; a
 *     truncated stream decodes other symbols, so their ranges legitimately differ)
 *  M  ec_tell_frac never decreases over an encoder operation and ec_tell == ceil(ec_tell_frac/8) (always)
 *  B  bytes outside the buffer untouched: every buffer is a heap block of exactly `storage` bytes under ASan; after
 *     ec_enc_shrink the live bytes are relocated into a block of exactly the new size, so a write at an old offset traps
 *  F  ec_tell at the end <= 8*storage  =>  error==0 after ec_enc_done
 *  R  (DESIGN 3.5) an independent decoder written from the RFC text decodes the same values, tell, tell_frac, rng
 *     from the same bytes
 *  plus: lib decoder run over the truncated buffer when error!=0 (memory safety only, ASan).
 *
 * patch_initial_bits model (entenc.h: "at least _nbits bits must have already been encoded using probabilities that are
 * an exact power of two"): the op is generated only when the history starts (raw-bit ops aside) with >= nbits worth of
 * *uniform dyadic* symbols (ft = 2^k, fh = fl+1: bit_logp(.,1), encode_bin single symbol, ec_encode with ft=2^k,
 * uint with 2^k range part); the first nbits of that bit string are replaced MSB-first and the decoder is expected to
 * return the patched symbols.  Patches that would produce a uint value >= ft are not generated.
 * shrink model: size' in {max(1,offs+end_offs), storage-1, storage}, once per sequence.
 */
#include <stdlib.h>
#include <string.h>
#include <stdarg.h>
#include <signal.h>
#include <unistd.h>
#include "entenc.h"
#include "entdec.h"
#include "mc.h"
/* the harness' own bookkeeping is not ASan-instrumented (speed); the library under test and every memcpy/memset are */
#define NOSAN __attribute__((no_sanitize("address")))
#define RCREF_FN NOSAN
#include "rc_ref.h"

/* ------------------------------------------------------------------ alphabet */
enum {K_LOGP,K_ICDF,K_ICDF16,K_ENC,K_BIN,K_UINT,K_BITS,K_PATCH,K_SHRINK,NK};
static const char *KN[NK]={"bit_logp","icdf","icdf16","encode","encode_bin","uint","bits","patch_initial_bits","shrink"};
typedef struct { int k; uint32_t a,b,c; } Op;
/* K_LOGP a=val b=logp | K_ICDF a=sym b=table | K_ICDF16 a=sym b=table | K_ENC a=fl b=fh c=ft | K_BIN a=fl b=fh c=bits
   K_UINT a=v b=ft | K_BITS a=v b=n | K_PATCH a=v b=n | K_SHRINK a=variant (resolved size kept in the path) */

static const unsigned char T8_0[]={6,2,1,0};          /* steep, ftb 8: f={250,4,1,1} */
static const unsigned char T8_1[]={24,16,8,0};        /* flat, ftb 5: f={8,8,8,8} */
static const unsigned char T8_2[]={129,127,0};        /* symmetric, ftb 8: f={127,2,127}; symbol 1 straddles the midpoint */
static const struct { const unsigned char *t; unsigned ftb; int n; } T8[3]={{T8_0,8,4},{T8_1,5,4},{T8_2,8,3}};
static const opus_uint16 T16_0[]={24576,256,1,0};     /* ftb 15: f={8192,24320,255,1} */
static const struct { const opus_uint16 *t; unsigned ftb; int n; } T16[1]={{T16_0,15,4}};

#define MAXA 128
static Op AL[MAXA]; static int NA;
static void add(int k,uint32_t a,uint32_t b,uint32_t c){ if(NA<MAXA){ AL[NA].k=k;AL[NA].a=a;AL[NA].b=b;AL[NA].c=c;NA++; } }

/* nested alphabets: small (level 0) < mid (<=1) < core (<=2) < wide (<=3) */
static int ALEVEL;
#define ADD(lv,k,a,b,c) do{ if((lv)<=ALEVEL) add(k,a,b,c); }while(0)
static void mk_alphabet(const char *name){
   ALEVEL = !strcmp(name,"small")?0: !strcmp(name,"mid")?1: !strcmp(name,"wide")?3: 2;
   NA=0;
   /* log-probability bits */
   ADD(0,K_LOGP,0,1,0); ADD(0,K_LOGP,1,1,0); ADD(0,K_LOGP,0,15,0); ADD(0,K_LOGP,1,15,0);
   ADD(1,K_LOGP,1,2,0); ADD(2,K_LOGP,0,2,0);
   ADD(3,K_LOGP,0,8,0); ADD(3,K_LOGP,1,8,0);
   /* inverse-CDF symbols */
   ADD(0,K_ICDF,0,0,0); ADD(0,K_ICDF,3,0,0); ADD(0,K_ICDF,1,2,0);
   ADD(1,K_ICDF,1,1,0);
   ADD(3,K_ICDF,2,0,0); ADD(3,K_ICDF,0,1,0); ADD(3,K_ICDF,3,1,0); ADD(3,K_ICDF,0,2,0); ADD(3,K_ICDF,2,2,0);
   ADD(0,K_ICDF16,3,0,0);
   ADD(1,K_ICDF16,0,0,0);
   ADD(3,K_ICDF16,1,0,0);
   /* frequency-table symbols */
   ADD(0,K_ENC,0,1,3); ADD(0,K_ENC,1,2,3); ADD(0,K_ENC,2,3,3);
   ADD(0,K_ENC,65534,65535,65535); ADD(0,K_ENC,65535,65536,65536);
   ADD(1,K_ENC,254,255,255); ADD(1,K_ENC,0,1,1);
   ADD(2,K_ENC,16383,16384,32768); ADD(2,K_ENC,0,1,65535);
   ADD(3,K_ENC,0,1,2); ADD(3,K_ENC,1,2,2); ADD(3,K_ENC,0,1,255); ADD(3,K_ENC,100,101,255); ADD(3,K_ENC,0,1,32768); ADD(3,K_ENC,32767,32768,32768);
   ADD(3,K_ENC,100,101,65535); ADD(3,K_ENC,0,1,65536); ADD(3,K_ENC,0,65535,65536); ADD(3,K_ENC,1,65535,65536);
   /* power-of-two tables */
   ADD(0,K_BIN,255,256,8); ADD(0,K_BIN,1,2,1);
   ADD(1,K_BIN,0,1,8); ADD(1,K_BIN,12345,12346,15);
   ADD(3,K_BIN,0,1,1); ADD(3,K_BIN,127,129,8); ADD(3,K_BIN,0,1,15); ADD(3,K_BIN,32767,32768,15); ADD(3,K_BIN,0,255,8);
   /* uniform integers */
   ADD(0,K_UINT,1,3,0); ADD(0,K_UINT,255,256,0); ADD(0,K_UINT,256,257,0); ADD(0,K_UINT,65535,65536,0); ADD(0,K_UINT,0xFFFFFFFEu,0xFFFFFFFFu,0);
   ADD(1,K_UINT,1u<<24,(1u<<24)+1,0); ADD(1,K_UINT,0x7FFFFFFFu,0xFFFFFFFFu,0);
   ADD(2,K_UINT,0,257,0);
   ADD(3,K_UINT,0,2,0); ADD(3,K_UINT,1,2,0); ADD(3,K_UINT,0,3,0); ADD(3,K_UINT,2,3,0); ADD(3,K_UINT,0,255,0); ADD(3,K_UINT,254,255,0); ADD(3,K_UINT,127,255,0);
   ADD(3,K_UINT,0,256,0); ADD(3,K_UINT,128,256,0); ADD(3,K_UINT,128,257,0); ADD(3,K_UINT,0,65536,0); ADD(3,K_UINT,32768,65536,0);
   ADD(3,K_UINT,0,(1u<<24)+1,0); ADD(3,K_UINT,1u<<23,(1u<<24)+1,0); ADD(3,K_UINT,0,0xFFFFFFFFu,0);
   /* raw bits */
   ADD(0,K_BITS,1,1,0); ADD(0,K_BITS,0xA5,8,0); ADD(0,K_BITS,0x1FFFFFF,25,0);
   ADD(1,K_BITS,0xFFFF,16,0);
   ADD(2,K_BITS,0,25,0);
   ADD(3,K_BITS,0,1,0); ADD(3,K_BITS,0,8,0); ADD(3,K_BITS,0xFF,8,0); ADD(3,K_BITS,0,16,0);
   /* once per sequence */
   ADD(0,K_PATCH,0,1,0); ADD(0,K_PATCH,1,2,0); ADD(0,K_PATCH,0xA5,8,0);
   ADD(2,K_PATCH,1,1,0);
   ADD(3,K_PATCH,0,2,0); ADD(3,K_PATCH,3,2,0); ADD(3,K_PATCH,0,8,0); ADD(3,K_PATCH,0xFF,8,0); ADD(3,K_PATCH,5,3,0);
   ADD(0,K_SHRINK,0,0,0); ADD(0,K_SHRINK,1,0,0); ADD(0,K_SHRINK,2,0,0);
}

/* fillers for e2 */
static const struct { Op op; const char *why; } FILL[4]={
   {{K_LOGP,1,1,0},"1-bits with logp 1: first byte 0xFF then a run of 0xFF counted in ext (rem stays -1)"},
   {{K_LOGP,0,15,0},"0-bits with logp 15: rng shrinks by 2^-15 per op, walks through the tell_frac classes"},
   {{K_BITS,0xA5,8,0},"8 raw bits: the back cursor advances one byte per op until it meets the front cursor"},
   {{K_ICDF,1,2,0},"centre symbol of a symmetric 8-bit table: the interval keeps straddling 0x7F FF FF.. | 0x80 00 00.., ext grows, the deviation decides whether the carry ripples"}};

/* ------------------------------------------------------------------ small helpers */
NOSAN static int ilog32(uint32_t v){ int n=0; while(v){ n++; v>>=1; } return n; }
NOSAN static int ispow2(uint64_t x){ return x && !(x&(x-1)); }

/* decomposition of an op into its range-coded three-tuple and its raw-bit part (model side, from the op's definition) */
typedef struct { int has_r; uint64_t fl,fh,ft; int has_raw; uint32_t rv; int rn; } Dec;
NOSAN static void decomp(const Op *o, Dec *d){
   memset(d,0,sizeof *d);
   switch(o->k){
   case K_LOGP: d->has_r=1; d->ft=(uint64_t)1<<o->b; if(o->a){ d->fl=d->ft-1; d->fh=d->ft; } else { d->fl=0; d->fh=d->ft-1; } break;
   case K_ICDF: d->has_r=1; d->ft=(uint64_t)1<<T8[o->b].ftb; d->fl=o->a? d->ft-T8[o->b].t[o->a-1]:0; d->fh=d->ft-T8[o->b].t[o->a]; break;
   case K_ICDF16: d->has_r=1; d->ft=(uint64_t)1<<T16[o->b].ftb; d->fl=o->a? d->ft-T16[o->b].t[o->a-1]:0; d->fh=d->ft-T16[o->b].t[o->a]; break;
   case K_ENC: d->has_r=1; d->fl=o->a; d->fh=o->b; d->ft=o->c; break;
   case K_BIN: d->has_r=1; d->fl=o->a; d->fh=o->b; d->ft=(uint64_t)1<<o->c; break;
   case K_UINT: { int ftb=ilog32(o->b-1); d->has_r=1;
      if(ftb<=8){ d->fl=o->a; d->fh=(uint64_t)o->a+1; d->ft=o->b; }
      else { ftb-=8; d->ft=((uint64_t)(o->b-1)>>ftb)+1; d->fl=o->a>>ftb; d->fh=d->fl+1; d->has_raw=1; d->rn=ftb; d->rv=o->a&(((uint32_t)1<<ftb)-1); } } break;
   case K_BITS: d->has_raw=1; d->rv=o->a; d->rn=(int)o->b; break;
   default: break;
   }
}
/* uniform dyadic: ft=2^k, one count -> k bits, value fl */
NOSAN static int dyadic_bits(const Op *o,const Dec *d){
   if(o->k==K_ICDF||o->k==K_ICDF16) return -1;          /* the decoder call carries a non-uniform table */
   if(o->k==K_LOGP&&o->b!=1) return -1;                 /* only logp==1 is a uniform binary context */
   if(!d->has_r||!ispow2(d->ft)||d->fh!=d->fl+1) return -1;
   return ilog32((uint32_t)(d->ft-1));                  /* ft=1 -> 0 bits, ft=2^k -> k bits */
}

static const char *opstr(const Op *o, uint32_t aux){
   static char ring[8][96]; static int r; char *s=ring[r=(r+1)&7];
   switch(o->k){
   case K_LOGP: snprintf(s,96,"bit_logp(%u,logp=%u)",o->a,o->b); break;
   case K_ICDF: snprintf(s,96,"icdf(s=%u,T8_%u,ftb=%u)",o->a,o->b,T8[o->b].ftb); break;
   case K_ICDF16: snprintf(s,96,"icdf16(s=%u,T16_%u,ftb=%u)",o->a,o->b,T16[o->b].ftb); break;
   case K_ENC: snprintf(s,96,"encode(%u,%u,%u)",o->a,o->b,o->c); break;
   case K_BIN: snprintf(s,96,"encode_bin(%u,%u,bits=%u)",o->a,o->b,o->c); break;
   case K_UINT: snprintf(s,96,"uint(%u,ft=%u)",o->a,o->b); break;
   case K_BITS: snprintf(s,96,"bits(0x%x,%u)",o->a,o->b); break;
   case K_PATCH: snprintf(s,96,"patch_initial_bits(0x%x,%u)",o->a,o->b); break;
   case K_SHRINK: snprintf(s,96,"shrink(->%u)",aux); break;
   default: s[0]=0;
   }
   return s;
}

/* ------------------------------------------------------------------ buffers: exact-size heap blocks (ASan redzones abut) */
#define SMAX 1275
static unsigned char *BA[SMAX+1], *BB[SMAX+1], *BC[SMAX+1], *BD[SMAX+1]; /* A: encoder before shrink, B: shrink scratch, C: encoder after shrink, D: finished stream */
static void mk_blocks(void){ int s; for(s=1;s<=SMAX;s++){ BA[s]=malloc(s); BB[s]=malloc(s); BC[s]=malloc(s); BD[s]=malloc(s); memset(BA[s],0x5A,s); memset(BB[s],0x5A,s); memset(BC[s],0x5A,s); memset(BD[s],0x5A,s); } }

/* ------------------------------------------------------------------ the path (history) and per-step encoder observations */
#define MAXD 72
static Op H[MAXD]; static uint32_t AUX[MAXD];               /* ops and resolved shrink size */
static uint32_t O_tell[MAXD], O_frac[MAXD], O_rng[MAXD];
static int O_errby[MAXD], O_errcause[MAXD];                  /* index of the op that first set enc.error (-1 none), and its cause class */
static int O_patch[MAXD], O_shrink[MAXD];                    /* 1+index of the patch / shrink op in the history so far, 0 = none */
static unsigned O_flags[MAXD];                               /* cumulative event flags */
static uint32_t S0;                                          /* initial buffer size */
enum { EV_CARRY=1, EV_RIPPLE=2, EV_EXT=4, EV_BACK=8, EV_PATCH_BUF=16, EV_PATCH_REM=32, EV_PATCH_VAL=64, EV_SHRINK_MOVED=128, EV_PATCH_FF=256 };
enum { CAUSE_WRITE=1, CAUSE_PATCH_FF=2, CAUSE_PATCH=3, CAUSE_OTHER=4 };

static mc_ctr *c_states,*c_trans,*c_eval,*c_dn,*c_roundtrip,*c_err,*c_carry,*c_ripple,*c_atbudget,*c_merge,*c_patch,*c_shrink,*c_maxext,*c_overbudget_ok,*c_safety,*c_frac;
static mc_set *visited, *classes;
static int counting=1;   /* 0 while a prefix is merely re-executed to reach an item's start node */
static int reporting;     /* 1: failures are reported with mc_fail (clean straight-line run); 0: detection only (DFS) */
static int replay_mode;

/* failure record */
static char F_sig[96], F_msg[2600];
static void setfail(const char *sig,const char *fmt,...){ va_list ap; if(F_sig[0]) return; snprintf(F_sig,sizeof F_sig,"%s",sig); va_start(ap,fmt); vsnprintf(F_msg,sizeof F_msg,fmt,ap); va_end(ap); }

static int cur_n;
static const char *seqstr(int n);
static void on_abort(int sg){ char b[2400]; int k=snprintf(b,sizeof b,"C08 crash (signal %d) while executing: %s\n",sg,seqstr(cur_n)); if(k>0) (void)!write(2,b,(size_t)k); signal(SIGABRT,SIG_DFL); raise(SIGABRT); }
static const char *seqstr(int n){
   static char s[2200]; int i,k=0; k+=snprintf(s+k,sizeof s-k,"size=%u ops[%d]:",S0,n);
   for(i=0;i<n&&k<(int)sizeof s-120;i++){
      /* compress runs */
      int j=i; while(j+1<n&&H[j+1].k==H[i].k&&H[j+1].a==H[i].a&&H[j+1].b==H[i].b&&H[j+1].c==H[i].c&&H[i].k<K_PATCH) j++;
      if(j>i+1){ k+=snprintf(s+k,sizeof s-k," %s x%d",opstr(&H[i],AUX[i]),j-i+1); i=j; }
      else k+=snprintf(s+k,sizeof s-k," %s",opstr(&H[i],AUX[i]));
   }
   return s;
}

/* state hash: struct without the buffer pointer + live bytes */
NOSAN static uint64_t state_hash(const ec_enc *e){
   uint32_t w[11]; uint64_t h;
   w[0]=e->storage;w[1]=e->end_offs;w[2]=e->end_window;w[3]=(uint32_t)e->nend_bits;w[4]=(uint32_t)e->nbits_total;w[5]=e->offs;w[6]=e->rng;w[7]=e->val;w[8]=e->ext;w[9]=(uint32_t)e->rem;w[10]=(uint32_t)e->error;
   h=mc_hash(w,sizeof w,0xC08);
   if(e->offs<=e->storage&&e->end_offs<=e->storage){
      if(e->offs) h=mc_mix(h,mc_hash(e->buf,e->offs,1));
      if(e->end_offs) h=mc_mix(h,mc_hash(e->buf+e->storage-e->end_offs,e->end_offs,2));
   }
   return h;
}

/* ------------------------------------------------------------------ enabling conditions */
NOSAN static uint32_t shrink_target(const ec_enc *e,int variant){
   uint32_t tight=e->offs+e->end_offs; if(tight<1) tight=1;
   if(variant==0) return tight;
   if(variant==1) return (e->storage>=2&&e->storage-1>tight)? e->storage-1 : 0;
   return e->storage;
}
/* builds the op list the decoder is expected to see (patched symbols); returns 0 if the patch is not legal here */
NOSAN static int patch_apply_model(const Op *hist,int n,uint32_t v,int nb,Op *eff){
   int i,m=0;
   for(i=0;i<n;i++) if(eff) eff[i]=hist[i];
   for(i=0;i<n&&m<nb;i++){
      Dec d; int k,j; uint64_t fl;
      if(hist[i].k==K_BITS||hist[i].k==K_SHRINK||hist[i].k==K_PATCH) continue;
      decomp(&hist[i],&d); k=dyadic_bits(&hist[i],&d);
      if(k<0) return 0;
      fl=d.fl;
      for(j=0;j<k;j++) if(m+j<nb){ uint64_t bit=(v>>(nb-1-(m+j)))&1, pos=(uint64_t)1<<(k-1-j); fl=(fl&~pos)|(bit?pos:0); }
      m+=k;
      if(eff){
         Op *o=&eff[i];
         switch(o->k){
         case K_LOGP: o->a=(uint32_t)fl; break;
         case K_ENC: case K_BIN: o->a=(uint32_t)fl; o->b=(uint32_t)fl+1; break;
         case K_UINT: if(d.has_raw){ uint64_t t=(fl<<d.rn)|d.rv; if(t>(uint64_t)o->b-1) return 0; o->a=(uint32_t)t; } else o->a=(uint32_t)fl; break;
         default: return 0;
         }
      } else if(hist[i].k==K_UINT&&d.has_raw){ uint64_t t=(fl<<d.rn)|d.rv; if(t>(uint64_t)hist[i].b-1) return 0; }
   }
   return m>=nb;
}
NOSAN static int enabled(const Op *o,const ec_enc *e,int n){
   if(o->k==K_PATCH){ if(n==0||O_patch[n-1]) return 0; return patch_apply_model(H,n,o->a,(int)o->b,NULL); }
   if(o->k==K_SHRINK){ if(n>0&&O_shrink[n-1]) return 0; if(e->offs+e->end_offs>e->storage) return 0; return shrink_target(e,(int)o->a)!=0; }
   return 1;
}

/* ------------------------------------------------------------------ one encoder step (real library call) + clause M */
NOSAN static void enc_call(ec_enc *e,const Op *o){
   switch(o->k){
   case K_LOGP: ec_enc_bit_logp(e,(int)o->a,o->b); break;
   case K_ICDF: ec_enc_icdf(e,(int)o->a,T8[o->b].t,T8[o->b].ftb); break;
   case K_ICDF16: ec_enc_icdf16(e,(int)o->a,T16[o->b].t,T16[o->b].ftb); break;
   case K_ENC: ec_encode(e,o->a,o->b,o->c); break;
   case K_BIN: ec_encode_bin(e,o->a,o->b,o->c); break;
   case K_UINT: ec_enc_uint(e,o->a,o->b); break;
   case K_BITS: ec_enc_bits(e,o->a,o->b); break;
   case K_PATCH: ec_enc_patch_initial_bits(e,o->a,o->b); break;
   default: break;
   }
}
/* applies H[i]=*o to *e (state after i ops); returns 0, or -1 with F_sig set */
NOSAN static int step(ec_enc *e,const Op *o,int i){
   uint32_t frac0 = i? O_frac[i-1] : ec_tell_frac(e);
   int err0=e->error, rem0=e->rem; uint32_t offs0=e->offs, ext0=e->ext, eo0=e->end_offs; unsigned fl = i? O_flags[i-1]:0;
   uint32_t t,f;
   H[i]=*o; AUX[i]=0;
   O_patch[i]= i?O_patch[i-1]:0; O_shrink[i]= i?O_shrink[i-1]:0; O_errby[i]= i?O_errby[i-1]:-1; O_errcause[i]= i?O_errcause[i-1]:0;
   cur_n=i+1;
   if(o->k==K_SHRINK){
      uint32_t S=e->storage, S2=shrink_target(e,(int)o->a); unsigned char *src=e->buf;
      AUX[i]=S2; O_shrink[i]=i+1;
      /* run the real shrink on a private copy of the live bytes (block of exactly the old size) ... */
      memset(BB[S],0x5A,S);
      memcpy(BB[S],src,e->offs); memcpy(BB[S]+S-e->end_offs,src+S-e->end_offs,e->end_offs);
      e->buf=BB[S];
      ec_enc_shrink(e,S2);
      /* ... then relocate the live bytes into a block of exactly the new size: any later access at >= S2 traps */
      if(e->storage>=1&&e->storage<=SMAX&&e->offs<=e->storage&&e->end_offs<=e->storage-e->offs){
         uint32_t n2=e->storage;
         memcpy(BC[n2],BB[S],e->offs); memcpy(BC[n2]+n2-e->end_offs,BB[S]+n2-e->end_offs,e->end_offs);
         e->buf=BC[n2];
      } else { setfail("enc_state_corrupt:shrink","after shrink storage=%u offs=%u end_offs=%u | %s",e->storage,e->offs,e->end_offs,seqstr(i+1)); return -1; }
      if(e->storage!=S2){ setfail("shrink_size_not_applied","storage=%u after shrink(%u) | %s",e->storage,S2,seqstr(i+1)); return -1; }
      if(eo0&&S2!=S) fl|=EV_SHRINK_MOVED;
   } else {
      if(o->k==K_PATCH){ O_patch[i]=i+1; fl|= offs0>0?EV_PATCH_BUF: rem0>=0?EV_PATCH_REM: EV_PATCH_VAL; if(offs0==0&&rem0<0&&ext0>0) fl|=EV_PATCH_FF; }
      enc_call(e,o);
   }
   if(counting) MC_INC(c_trans);
   if(e->offs>e->storage||e->end_offs>e->storage||e->offs+e->end_offs>e->storage){ setfail("enc_state_corrupt:cursors","offs=%u end_offs=%u storage=%u after %s | %s",e->offs,e->end_offs,e->storage,KN[o->k],seqstr(i+1)); return -1; }
   t=(uint32_t)ec_tell(e); f=ec_tell_frac(e);
   O_tell[i]=t; O_frac[i]=f; O_rng[i]=e->rng;
   /* events (for observation classes and non-vacuity counters) */
   if(o->k<K_PATCH && e->offs>offs0 && rem0>=0 && e->buf[offs0]!=(unsigned char)rem0){ fl|=EV_CARRY; if(counting) MC_INC(c_carry); if(ext0>0){ fl|=EV_RIPPLE; if(counting) MC_INC(c_ripple); } }
   if(e->ext>0){ fl|=EV_EXT; MC_MAX(c_maxext,(long)e->ext); }
   if(e->end_offs>eo0) fl|=EV_BACK;
   O_flags[i]=fl;
   if(!err0&&e->error){
      O_errby[i]=i;
      O_errcause[i]= o->k==K_PATCH ? ((offs0==0&&rem0<0&&ext0>0)?CAUSE_PATCH_FF:CAUSE_PATCH) : (o->k<K_PATCH?CAUSE_WRITE:CAUSE_OTHER);
   }
   /* clause M */
   if((int32_t)(f-frac0)<0){ char sig[96]; snprintf(sig,sizeof sig,"tell_frac_decreased:%s",KN[o->k]); setfail(sig,"ec_tell_frac went %u -> %u over op %d | %s",frac0,f,i,seqstr(i+1)); return -1; }
   if(t!=((f+7)>>3)){ char sig[96]; snprintf(sig,sizeof sig,"tell_not_ceil_of_tell_frac:%s",KN[o->k]); setfail(sig,"ec_tell=%u ec_tell_frac=%u after op %d (rng=%u nbits_total=%d) | %s",t,f,i,e->rng,e->nbits_total,seqstr(i+1)); return -1; }
   return 0;
}

/* ------------------------------------------------------------------ verification of a complete sequence H[0..n) */
static Op EFF[MAXD];
static uint64_t LC1[1<<16], LC2[1<<16];
/* decode-side failure signature; sequences in which patch_initial_bits ran while the first stream byte (0xFF) was still
   counted in ext (offs==0, rem==-1, ext>0) get one narrowly scoped signature of their own */
static const char *dsig(char *buf,size_t n,const char *what,int kind,int last){ if(O_flags[last]&EV_PATCH_FF) snprintf(buf,n,"decode_mismatch_after_patch_initial_bits:first_byte_0xff_still_in_ext"); else snprintf(buf,n,"%s:%s",what,KN[kind]); return buf; }
NOSAN static int verify(const ec_enc *cur,int n){
   ec_enc e=*cur; uint32_t S=e.storage; unsigned char *fb; int tell_end,i,used_raw; const Op *eff=H;
   ec_dec d; rcref r;
   if(S<1||S>SMAX||e.offs+e.end_offs>S){ setfail("enc_state_corrupt:verify","storage=%u offs=%u end_offs=%u | %s",S,e.offs,e.end_offs,seqstr(n)); return -1; }
   fb=BD[S];
   memcpy(fb,e.buf,e.offs); memcpy(fb+S-e.end_offs,e.buf+S-e.end_offs,e.end_offs);
   e.buf=fb;
   tell_end=ec_tell(&e); used_raw=e.nend_bits;
   MC_INC(c_eval);
   ec_enc_done(&e);
   if(tell_end==(int)(8*S)) MC_INC(c_atbudget);
   /* clause F */
   if(e.error && tell_end<=(int)(8*S)){
      int by=O_errby[n-1], cause=O_errcause[n-1]; char sig[96];
      if(by<0) snprintf(sig,sizeof sig,"error_within_budget:set_by_enc_done");
      else if(cause==CAUSE_PATCH_FF) snprintf(sig,sizeof sig,"error_within_budget:set_by_patch_initial_bits:first_byte_0xff_still_in_ext");
      else snprintf(sig,sizeof sig,"error_within_budget:set_by_%s",KN[H[by].k]);
      setfail(sig,"ec_tell=%d <= 8*%u at the end but enc.error=%d after ec_enc_done (error first set by op %d) | %s",tell_end,S,e.error,by,seqstr(n));
      return -1;
   }
   if(e.error){
      /* truncated stream: the value/tell clauses are vacuous; run the real decoder over it for memory safety only */
      uint32_t mid0=e.offs<=S?e.offs:S, mid1=e.end_offs<=S-mid0?S-e.end_offs:mid0;
      MC_INC(c_err);
      memset(fb+mid0,0,mid1-mid0);
      ec_dec_init(&d,fb,S);
      for(i=0;i<n;i++){ const Op *o=&H[i]; switch(o->k){
         case K_LOGP: ec_dec_bit_logp(&d,o->b); break; case K_ICDF: ec_dec_icdf(&d,T8[o->b].t,T8[o->b].ftb); break; case K_ICDF16: ec_dec_icdf16(&d,T16[o->b].t,T16[o->b].ftb); break;
         case K_ENC: { unsigned fs=ec_decode(&d,o->c); ec_dec_update(&d,fs,fs+1,o->c); } break;
         case K_BIN: { unsigned fs=ec_decode_bin(&d,o->c); ec_dec_update(&d,fs,fs+1,1u<<o->c); } break;
         case K_UINT: ec_dec_uint(&d,o->b); break; case K_BITS: ec_dec_bits(&d,o->b); break; default: break; } }
      MC_INC(c_safety);
      return 0;
   }
   if(tell_end>(int)(8*S)) MC_INC(c_overbudget_ok);
   if(used_raw>0&&e.offs+e.end_offs>=S) MC_INC(c_merge);
   if(O_patch[n-1]){ int p=O_patch[n-1]-1; if(!patch_apply_model(H,p,H[p].a,(int)H[p].b,EFF)){ setfail("harness:patch_model","patch not legal at verify | %s",seqstr(n)); return -1; } for(i=p;i<n;i++) EFF[i]=H[i]; eff=EFF; }
   /* clauses V, T (real decoder) and R (RFC-text decoder), step by step */
   ec_dec_init(&d,fb,S);
   rcref_init(&r,fb,S);
   for(i=0;i<n;i++){
      const Op *o=&eff[i]; uint32_t got=0,exp=0,rgot=0; int bad=0,rbad=0; char sig[96];
      switch(o->k){
      case K_LOGP: got=(uint32_t)ec_dec_bit_logp(&d,o->b); rgot=(uint32_t)rcref_bit_logp(&r,o->b); exp=o->a; bad=got!=exp; rbad=rgot!=exp; break;
      case K_ICDF: got=(uint32_t)ec_dec_icdf(&d,T8[o->b].t,T8[o->b].ftb); rgot=(uint32_t)rcref_icdf(&r,T8[o->b].t,T8[o->b].ftb); exp=o->a; bad=got!=exp; rbad=rgot!=exp; break;
      case K_ICDF16: got=(uint32_t)ec_dec_icdf16(&d,T16[o->b].t,T16[o->b].ftb); rgot=(uint32_t)rcref_icdf16(&r,T16[o->b].t,T16[o->b].ftb); exp=o->a; bad=got!=exp; rbad=rgot!=exp; break;
      case K_ENC: got=ec_decode(&d,o->c); rgot=rcref_decode(&r,o->c); exp=o->a; bad=!(got>=o->a&&got<o->b); rbad=!(rgot>=o->a&&rgot<o->b);
                  if(!bad) ec_dec_update(&d,o->a,o->b,o->c); if(!rbad) rcref_update(&r,o->a,o->b,o->c); break;
      case K_BIN: got=ec_decode_bin(&d,o->c); rgot=rcref_decode_bin(&r,o->c); exp=o->a; bad=!(got>=o->a&&got<o->b); rbad=!(rgot>=o->a&&rgot<o->b);
                  if(!bad) ec_dec_update(&d,o->a,o->b,1u<<o->c); if(!rbad) rcref_update(&r,o->a,o->b,(uint64_t)1<<o->c); break;
      case K_UINT: got=ec_dec_uint(&d,o->b); rgot=rcref_uint(&r,o->b); exp=o->a; bad=got!=exp; rbad=rgot!=exp; break;
      case K_BITS: got=ec_dec_bits(&d,o->b); rgot=rcref_bits(&r,o->b); exp=o->a; bad=got!=exp; rbad=rgot!=exp; break;
      default: continue;   /* patch / shrink have no decoder counterpart */
      }
      if(bad){ dsig(sig,sizeof sig,"decoded_value_differs",o->k,n-1); setfail(sig,"step %d %s: decoder returned %u, encoded %u%s | %s | stream=%s",i,opstr(o,0),got,exp,(o->k==K_ENC||o->k==K_BIN)?" (fs outside [fl,fh))":"",seqstr(n),mc_hex(fb,S<48?S:48)); return -1; }
      if((uint32_t)ec_tell(&d)!=O_tell[i]){ dsig(sig,sizeof sig,"tell_differs_enc_dec",o->k,n-1); setfail(sig,"step %d %s: ec_tell enc %u dec %d | %s | stream=%s",i,opstr(o,0),O_tell[i],ec_tell(&d),seqstr(n),mc_hex(fb,S<48?S:48)); return -1; }
      if(ec_tell_frac(&d)!=O_frac[i]){ dsig(sig,sizeof sig,"tell_frac_differs_enc_dec",o->k,n-1); setfail(sig,"step %d %s: ec_tell_frac enc %u dec %u | %s | stream=%s",i,opstr(o,0),O_frac[i],ec_tell_frac(&d),seqstr(n),mc_hex(fb,S<48?S:48)); return -1; }
      if(d.rng!=O_rng[i]){ dsig(sig,sizeof sig,"rng_differs_enc_dec",o->k,n-1); setfail(sig,"step %d %s: rng enc %u dec %u | %s | stream=%s",i,opstr(o,0),O_rng[i],d.rng,seqstr(n),mc_hex(fb,S<48?S:48)); return -1; }
      if(rbad){ dsig(sig,sizeof sig,"rfc_decoder_value_differs",o->k,n-1); setfail(sig,"step %d %s: RFC-text decoder returned %u, encoded %u | %s | stream=%s",i,opstr(o,0),rgot,exp,seqstr(n),mc_hex(fb,S<48?S:48)); return -1; }
      if(r.broken){ dsig(sig,sizeof sig,"rfc_decoder_invariant",o->k,n-1); setfail(sig,"step %d %s: RFC-text decoder left its 32-bit domain | %s | stream=%s",i,opstr(o,0),seqstr(n),mc_hex(fb,S<48?S:48)); return -1; }
      if(r.rng!=O_rng[i]||rcref_tell(&r)!=(int64_t)O_tell[i]||rcref_tell_frac(&r)!=(int64_t)O_frac[i]){ dsig(sig,sizeof sig,"rfc_decoder_tell_or_rng_differs",o->k,n-1);
         setfail(sig,"step %d %s: enc tell/frac/rng %u/%u/%u, RFC-text decoder %ld/%ld/%lu | %s | stream=%s",i,opstr(o,0),O_tell[i],O_frac[i],O_rng[i],(long)rcref_tell(&r),(long)rcref_tell_frac(&r),(unsigned long)r.rng,seqstr(n),mc_hex(fb,S<48?S:48)); return -1; }
   }
   if(d.error||r.corrupt){ setfail("decoder_error_flag_on_valid_stream","dec.error=%d rfc.corrupt=%d | %s",d.error,r.corrupt,seqstr(n)); return -1; }
   MC_INC(c_roundtrip);
   {  /* observation class of a verified round trip */
      uint64_t h=mc_mix(S0,S); int cls = tell_end<(int)(8*S)?0: tell_end==(int)(8*S)?1:2;
      {  /* op-kind sequence with runs collapsed; beyond the first four runs only the set of kinds is kept */
         uint64_t prev=~(uint64_t)0, mask=0; int runs=0;
         for(i=0;i<n;i++){ uint64_t t=(uint64_t)H[i].k*131+(H[i].k==K_BITS?H[i].b:0); if(t!=prev){ if(runs<4) h=mc_mix(h,t); else mask|=(uint64_t)1<<H[i].k; runs++; } prev=t; }
         h=mc_mix(h,mask*16+(runs<15?runs:15)); }
      h=mc_mix(h,O_flags[n-1]); h=mc_mix(h,(uint64_t)cls*4+(used_raw>0&&e.offs+e.end_offs>=S));
      if(LC2[h&0xFFFF]!=h && (LC2[h&0xFFFF]=h, mc_set_add(classes,h))){
         long c=__atomic_add_fetch(c_dn,1,__ATOMIC_RELAXED);
         if(c%20011==1||((O_flags[n-1]&(EV_RIPPLE|EV_SHRINK_MOVED))&&c%211==1)||(cls==1&&c%499==1)) mc_sample("%s -> stream %s tell=%d/%u%s%s%s: decoded back exactly by ec_dec and by the RFC-text decoder, tell/tell_frac/rng equal at every step",
            seqstr(n),mc_hex(fb,S<24?S:24),tell_end,8*S,(O_flags[n-1]&EV_CARRY)?" [carry]":"",(O_flags[n-1]&EV_RIPPLE)?" [carry rippled through ext run]":"",(O_flags[n-1]&EV_SHRINK_MOVED)?" [shrink moved raw bytes]":"");
      }
   }
   return 0;
}

/* ------------------------------------------------------------------ clean straight-line run of H[0..n) (used to report) */
static int run_clean(int n,int report){
   ec_enc e; int i,rc=0,sv=reporting; Op seq[MAXD];
   memcpy(seq,H,sizeof(Op)*n);
   F_sig[0]=0; reporting=report;
   memset(BA[S0],0x5A,S0);
   ec_enc_init(&e,BA[S0],S0);
   for(i=0;i<n&&!rc;i++){
      if(!enabled(&seq[i],&e,i)){ setfail("harness:op_not_enabled_in_clean_run","op %d %s | %s",i,opstr(&seq[i],0),seqstr(i)); rc=-1; break; }
      rc=step(&e,&seq[i],i);
      if(!rc) rc=verify(&e,i+1);          /* every prefix is itself a complete sequence */
   }
   reporting=sv;
   if(rc&&report) mc_fail(F_sig,"%s",F_msg);
   return rc;
}
/* a failure seen inside the DFS is re-established from scratch before it is reported */
static void report_from_dfs(int n){
   char sig0[96], msg0[400]; snprintf(sig0,sizeof sig0,"%s",F_sig); snprintf(msg0,sizeof msg0,"%.390s",F_msg);
   if(!run_clean(n,1)) mc_fail("harness:dfs_and_clean_run_disagree","DFS saw %s (%s) but the straight-line run of the same sequence passed | %s",sig0,msg0,seqstr(n));
   F_sig[0]=0;
}

/* per-process direct-mapped filters in front of the shared sets (a hit means this process already inserted the hash) */
NOSAN static void count_state(const ec_enc *e){ uint64_t h=state_hash(e); if(LC1[h&0xFFFF]==h) return; LC1[h&0xFFFF]=h; if(mc_set_add(visited,h)) MC_INC(c_states); }

/* ------------------------------------------------------------------ E1 */
static int D_MAX;
NOSAN static void e1_dfs(ec_enc *e,int depth){
   int a;
   for(a=0;a<NA;a++){
      ec_enc c; unsigned char b0=0; int saved=0;
      if(!enabled(&AL[a],e,depth)) continue;
      c=*e;
      if(AL[a].k==K_PATCH&&c.offs>0){ b0=c.buf[0]; saved=1; }
      if(depth<=D_MAX-3||replay_mode) mc_case("e1","%s + %s",seqstr(depth),opstr(&AL[a],0));
      if(step(&c,&AL[a],depth)||verify(&c,depth+1)) report_from_dfs(depth+1);
      else { count_state(&c); if(depth+1<D_MAX) e1_dfs(&c,depth+1); }
      if(saved) e->buf[0]=b0;
   }
}
static int SZ[16], NSZ;
NOSAN static void e1_item(long it,void *ctx){
   int a1=(int)(it%NA), a0=(int)((it/NA)%NA), si=(int)(it/NA/NA); ec_enc e,c; (void)ctx;
   S0=(uint32_t)SZ[si]; F_sig[0]=0;
   mc_case("e1","size=%u first ops %s, %s",S0,opstr(&AL[a0],0),opstr(&AL[a1],0));
   memset(BA[S0],0x5A,S0);
   ec_enc_init(&e,BA[S0],S0);
   if(!enabled(&AL[a0],&e,0)) return;
   if(a1==0){ /* the depth-1 node belongs to the item with a1==0 */
      c=e; if(step(&c,&AL[a0],0)||verify(&c,1)){ report_from_dfs(1); return; } count_state(&c);
      if(D_MAX<2) return;
   } else { c=e; counting=0; if(step(&c,&AL[a0],0)){ counting=1; F_sig[0]=0; return; } counting=1; }
   if(D_MAX<2) return;
   e=c;
   if(!enabled(&AL[a1],&e,1)) return;
   {
      unsigned char b0=0; int saved=0;
      c=e; if(AL[a1].k==K_PATCH&&c.offs>0){ b0=c.buf[0]; saved=1; }
      if(step(&c,&AL[a1],1)||verify(&c,2)) report_from_dfs(2);
      else { count_state(&c); if(D_MAX>2) e1_dfs(&c,2); }
      if(saved) e.buf[0]=b0;
   }
}

/* ------------------------------------------------------------------ E2 */
static int HZ, KDEV;
NOSAN static void e2_dfs(ec_enc *e,int pos,int kleft,const Op *fill){
   ec_enc c; int a;
   if(pos>=HZ) return;
   if(kleft>0){
      for(a=0;a<NA;a++){
         unsigned char b0=0; int saved=0;
         if(AL[a].k==fill->k&&AL[a].a==fill->a&&AL[a].b==fill->b&&AL[a].c==fill->c) continue;
         if(!enabled(&AL[a],e,pos)) continue;
         c=*e; if(AL[a].k==K_PATCH&&c.offs>0){ b0=c.buf[0]; saved=1; }
         if(replay_mode||kleft>1) mc_case("e2","%s + %s",seqstr(pos),opstr(&AL[a],0));
         if(step(&c,&AL[a],pos)||verify(&c,pos+1)) report_from_dfs(pos+1);
         else { if(kleft>1) count_state(&c); e2_dfs(&c,pos+1,kleft-1,fill); }
         if(saved) e->buf[0]=b0;
      }
   }
   /* no deviation here */
   c=*e;
   if(step(&c,fill,pos)){ report_from_dfs(pos+1); return; }
   if(kleft>0) count_state(&c);
   if(pos+1==HZ){ if(verify(&c,pos+1)) report_from_dfs(pos+1); return; }
   if(kleft>0) e2_dfs(&c,pos+1,kleft,fill);
   else {
      /* deterministic tail of fillers */
      int p; for(p=pos+1;p<HZ;p++){ if(step(&c,fill,p)){ report_from_dfs(p+1); return; } }   /* tail states are not inserted: see e2 note */
      if(verify(&c,HZ)) report_from_dfs(HZ);
   }
}
NOSAN static void e2_item(long it,void *ctx){
   int a=(int)(it%NA), p1=(int)((it/NA)%(HZ+1)), si=(int)((it/NA/(HZ+1))%NSZ), fi=(int)(it/NA/(HZ+1)/NSZ), p; ec_enc e,c; const Op *fill=&FILL[fi].op; (void)ctx;
   S0=(uint32_t)SZ[si]; F_sig[0]=0;
   mc_case("e2","filler %s size=%u first deviation at %d: %s",opstr(fill,0),S0,p1,opstr(&AL[a],0));
   memset(BA[S0],0x5A,S0);
   ec_enc_init(&e,BA[S0],S0);
   if(p1==HZ){ /* the undeviated sequence and all its prefixes */
      if(a!=0) return;
      for(p=0;p<HZ;p++){ if(step(&e,fill,p)||verify(&e,p+1)){ report_from_dfs(p+1); return; } count_state(&e); }
      return;
   }
   if(KDEV<1) return;
   if(AL[a].k==fill->k&&AL[a].a==fill->a&&AL[a].b==fill->b&&AL[a].c==fill->c) return;
   counting=0;   /* prefix re-execution is not a new transition */
   for(p=0;p<p1;p++) if(step(&e,fill,p)){ counting=1; F_sig[0]=0; return; }
   counting=1;
   if(!enabled(&AL[a],&e,p1)) return;
   c=e;
   if(step(&c,&AL[a],p1)||verify(&c,p1+1)){ report_from_dfs(p1+1); return; }
   if(KDEV>1) count_state(&c);
   e2_dfs(&c,p1+1,KDEV-1,fill);
}

/* ------------------------------------------------------------------ E3 */
static const int NBT[4]={33,41,1033,32009};   /* nbits_total is 33 + 8*renormalisations + raw bits */
NOSAN static void e3_item(long it,void *ctx){
   /* it: ilog class 24..32 (x low-bit fill 0/1) for the table part; chunks of 2^20 rng values for the full sweep */
   int full=*(int*)ctx; ec_ctx x; memset(&x,0,sizeof x);
   mc_case("e3","item %ld full=%d",it,full);
   if(!full){
      int l=24+(int)(it>>1), lowfill=(int)(it&1), k; uint32_t rq; uint32_t prev[4]={0,0,0,0}; int have=0;
      for(rq=32768;rq<65536;rq++){
         uint32_t rng;
         if(l==32){ if(rq!=32768||lowfill) break; rng=0x80000000u; }   /* rng never exceeds 2^31 */
         else rng=(rq<<(l-16))|(lowfill?((1u<<(l-16))-1):0);
         for(k=0;k<4;k++){
            uint32_t got; int64_t want; x.rng=rng; x.nbits_total=NBT[k];
            got=ec_tell_frac(&x); want=rcref_frac_of(NBT[k],rng); MC_INC(c_frac);
            if((int64_t)got!=want){ mc_fail("tell_frac_formula:differs_from_rfc_text","rng=%u (ilog %d, r_Q15=%u) nbits_total=%d: ec_tell_frac=%u, RFC 4.1.6.2 formula=%ld",rng,l,rq,NBT[k],got,(long)want); return; }
            if((uint32_t)ec_tell(&x)!=((got+7)>>3)){ mc_fail("tell_frac_formula:tell_not_ceil","rng=%u nbits_total=%d: ec_tell=%d ec_tell_frac=%u",rng,NBT[k],ec_tell(&x),got); return; }
            if(have&&got>prev[k]){ mc_fail("tell_frac_formula:not_monotone_in_rng","rng=%u nbits_total=%d: ec_tell_frac=%u but %u for the next smaller range value",rng,NBT[k],got,prev[k]); return; }
            prev[k]=got;
         }
         have=1;
         if((rq&4095)==17&&lowfill==0){ x.nbits_total=33; x.rng=rng; mc_sample("tell_frac: rng=0x%08x nbits_total=33 -> ec_tell_frac=%u == RFC 4.1.6.2 formula %ld, ec_tell=%d",rng,ec_tell_frac(&x),(long)rcref_frac_of(33,rng),ec_tell(&x)); }
         mc_set_add(classes,mc_mix(l,rq>>8));
      }
   } else {
      uint64_t lo=((uint64_t)1<<23)+1+(uint64_t)it*(1u<<20), hi=lo+(1u<<20), v; uint32_t prev=0; int have=0;
      if(hi>((uint64_t)1<<31)+1) hi=((uint64_t)1<<31)+1;
      x.nbits_total=33;
      for(v=lo;v<hi;v++){
         uint32_t got; x.rng=(uint32_t)v; got=ec_tell_frac(&x); MC_INC(c_frac);
         if((int64_t)got!=rcref_frac_of(33,v)){ mc_fail("tell_frac_formula:differs_from_rfc_text","rng=%lu nbits_total=33: ec_tell_frac=%u, RFC formula=%ld",(unsigned long)v,got,(long)rcref_frac_of(33,v)); return; }
         if(have&&got>prev){ mc_fail("tell_frac_formula:not_monotone_in_rng","rng=%lu: ec_tell_frac=%u > %u at rng-1",(unsigned long)v,got,prev); return; }
         prev=got; have=1;
      }
      mc_set_add(classes,mc_mix(77,(uint64_t)it));
   }
}

/* ------------------------------------------------------------------ main */
static void parse_sizes(const char *s){ NSZ=0; while(*s&&NSZ<16){ int v=atoi(s); if(v>=1&&v<=SMAX) SZ[NSZ++]=v; while(*s&&*s!=',') s++; if(*s==',') s++; } }

/* a plan is a list of sub-spaces run one after another in the same process: "alpha:bound:sizes[:horizon];..."
   (bound = depth for e1, max deviations for e2) */
int main(int argc,char **argv){
   const char *mode,*plan; char pl[512]; char *ent,*save=NULL;
   mc_init(argc,argv,"C08","e1");
   mode=mc_arg_s("--mode","e1"); MC.part=mc_arg_s("--name",mode);
   replay_mode = MC.only_item>=0;
   c_states=mc_counter("states"); c_trans=mc_counter("transitions"); c_eval=mc_counter("evaluations"); c_dn=mc_counter("distinct_nontrivial");
   c_roundtrip=mc_counter("roundtrips_verified"); c_err=mc_counter("sequences_with_enc_error"); c_safety=mc_counter("decoder_safety_runs_on_truncated_streams");
   c_carry=mc_counter("carries"); c_ripple=mc_counter("carries_rippled_through_ext_run"); c_maxext=mc_counter("max_ext_run");
   c_atbudget=mc_counter("sequences_with_tell_eq_budget"); c_overbudget_ok=mc_counter("over_budget_but_no_error_and_decoded");
   c_merge=mc_counter("raw_bits_merged_into_last_range_byte"); c_frac=mc_counter("tell_frac_evaluations");
   mk_blocks();
   signal(SIGABRT,on_abort);
   if(!strcmp(mode,"e3")){
      int full=(int)mc_arg("--full",0);
      visited=mc_set_new(10); classes=mc_set_new(16);
      { int zero=0, one=1; mc_par(18,e3_item,&zero); if(full) mc_par(2040,e3_item,&one); }
      *c_eval=*c_frac; *c_trans=*c_frac; *c_states=mc_set_count(classes); *c_dn=mc_set_count(classes);
      return mc_finish();
   }
   visited=mc_set_new((int)mc_arg("--setbits",27)); classes=mc_set_new(26);
   plan=mc_arg_s("--plan", !strcmp(mode,"e1") ? "core:4:1,2,3,4,5,8,32,1275" : "small:1:1,2,3,4,5,8,32,1275:48");
   snprintf(pl,sizeof pl,"%s",plan);
   for(ent=strtok_r(pl,";",&save); ent; ent=strtok_r(NULL,";",&save)){
      char al[16]="core", sz[128]="1,2,3,4,5,8,32,1275"; int bound=1, hz=48, a, k=0; char line[2600];
      if(sscanf(ent,"%15[^:]:%d:%127[^:]:%d",al,&bound,sz,&hz)<3){ fprintf(stderr,"bad plan entry %s\n",ent); return 2; }
      mk_alphabet(al); parse_sizes(sz);
      for(a=0;a<NA&&k<2400;a++) k+=snprintf(line+k,sizeof line-k,"%s ",opstr(&AL[a],0));
      if(!strcmp(mode,"e1")){
         D_MAX=bound; if(D_MAX>MAXD-2) D_MAX=MAXD-2;
         mc_info("e1 sub-space: alphabet '%s' (%d ops) depth<=%d sizes %s",al,NA,D_MAX,sz);
         mc_info("alphabet '%s': %s",al,line);
         mc_par((long)NSZ*NA*NA,e1_item,NULL);
      } else {
         int f;
         HZ=hz; if(HZ>MAXD-2) HZ=MAXD-2; KDEV=bound;
         mc_info("e2 sub-space: alphabet '%s' (%d ops) horizon %d, <=%d deviations, sizes %s, 4 fillers",al,NA,HZ,KDEV,sz);
         mc_info("alphabet '%s': %s",al,line);
         for(f=0;f<4;f++) mc_info("filler %d: %s — %s",f,opstr(&FILL[f].op,0),FILL[f].why);
         mc_par((long)4*NSZ*(HZ+1)*NA,e2_item,NULL);
      }
   }
   mc_set_count(visited); mc_set_count(classes);
   return mc_finish();
}
