/* rc_ref.h — range DEcoder written from the text of RFC 6716 section 4.1 (as shipped in
 * $REPO/doc/draft-ietf-codec-opus.xml, sections "Range Decoder" .. "Current Bit Usage").
 *
 * Deliberately independent of celt/ent*.c: no shared macros, no shared headers, 64-bit arithmetic with
 * explicit masks where the text says "32-bit unsigned", every alternate method (4.1.3) implemented through
 * its stated equivalence to ec_decode()+ec_dec_update() and a linear search of the context, raw bits read
 * bit by bit from the end of the frame.  Paragraph references are to the draft's section titles.
 */
#ifndef RC_REF_H
#define RC_REF_H
#include <stdint.h>
#ifndef RCREF_FN
#define RCREF_FN
#endif

typedef struct {
   const unsigned char *frame;   /* the Opus frame handed to the range decoder */
   uint32_t nbytes;              /* its size */
   uint32_t next;                /* index of the next byte the range decoder will read */
   int      leftover;            /* "the remaining bit, (b0&1), saved for use in the renormalization" */
   uint64_t val, rng;            /* "Both val and rng are 32-bit unsigned integer values" (kept in 64 bits, checked) */
   uint64_t rawpos;              /* number of raw bits consumed from the end of the frame so far */
   int64_t  nbits_total;         /* 4.1.6 */
   uint64_t q;                   /* rng/ft saved between decode and update */
   int      corrupt;             /* ec_dec_uint: t >= ft */
   int      broken;              /* internal invariant (32-bit range of val/rng, rng > 2**23) violated */
} rcref;

/* ilog(x): "the number of bits required to store x", 0 for 0 */
RCREF_FN static int rcref_ilog(uint64_t x){ return x ? 64-__builtin_clzll(x) : 0; }

/* "Renormalization": repeat until rng > 2**23 */
RCREF_FN static void rcref_renorm(rcref *r){
   while (r->rng <= ((uint64_t)1<<23)){
      unsigned byte, sym;
      r->nbits_total += 8;                                   /* "Each iteration ... increases nbits_total by 8" */
      r->rng <<= 8;                                          /* "First, it sets rng to (rng<<8)" */
      byte = r->next < r->nbytes ? r->frame[r->next++] : 0;  /* "If no more input bytes remain, it uses zero bits instead" */
      sym = ((unsigned)r->leftover<<7) | (byte>>1);          /* left-over bit as the high bit, top 7 bits of the new byte */
      r->leftover = byte&1;
      r->val = ((r->val<<8) + (255-sym)) & 0x7FFFFFFFu;      /* val = ((val<<8) + (255-sym)) & 0x7FFFFFFF */
   }
   if (r->rng > 0xFFFFFFFFull || r->val > 0xFFFFFFFFull) r->broken = 1;
}

/* "Range Decoder Initialization" */
RCREF_FN static void rcref_init(rcref *r, const unsigned char *frame, uint32_t nbytes){
   unsigned b0;
   r->frame=frame; r->nbytes=nbytes; r->next=0; r->rawpos=0; r->corrupt=0; r->broken=0; r->q=0;
   b0 = r->next < r->nbytes ? r->frame[r->next++] : 0;       /* "first input byte (or zero if there are no bytes)" */
   r->rng = 128;
   r->val = 127 - (b0>>1);
   r->leftover = b0&1;
   r->nbits_total = 9;                                       /* "initialized to 9 just before the initial range renormalization" */
   rcref_renorm(r);
}

/* "Decoding Symbols", first step: fs = ft - min(val/(rng/ft) + 1, ft) */
RCREF_FN static uint32_t rcref_decode(rcref *r, uint64_t ft){
   uint64_t s;
   r->q = r->rng/ft;
   if (r->q==0){ r->broken=1; return 0; }
   s = r->val/r->q + 1;
   return (uint32_t)(ft - (s<ft?s:ft));
}
/* second step, with the three-tuple (fl,fh,ft) of the identified symbol */
RCREF_FN static void rcref_update(rcref *r, uint64_t fl, uint64_t fh, uint64_t ft){
   uint64_t d = (r->rng/ft)*(ft-fh);
   if (d > r->val) r->broken = 1;                            /* would leave the 32-bit unsigned domain */
   r->val = r->val - d;                                      /* val = val - rng/ft*(ft-fh) */
   if (fl>0) r->rng = (r->rng/ft)*(fh-fl);                   /* rng = rng/ft*(fh-fl) */
   else      r->rng = r->rng - d;                            /* rng = rng - rng/ft*(ft-fh) */
   if (r->rng==0){ r->broken=1; r->rng=1; }
   rcref_renorm(r);
}

/* 4.1.3.1 ec_decode_bin(): "mathematically equivalent to calling ec_decode() with ft = (1<<ftb)" */
RCREF_FN static uint32_t rcref_decode_bin(rcref *r, unsigned ftb){ return rcref_decode(r,(uint64_t)1<<ftb); }

/* 4.1.3.2 ec_dec_bit_logp(): ec_decode(1<<logp), then update with (0,(1<<logp)-1,1<<logp) if fs<(1<<logp)-1 ("0"),
   with ((1<<logp)-1,1<<logp,1<<logp) otherwise ("1") */
RCREF_FN static int rcref_bit_logp(rcref *r, unsigned logp){
   uint64_t ft=(uint64_t)1<<logp; uint32_t fs=rcref_decode(r,ft);
   if (fs < ft-1){ rcref_update(r,0,ft-1,ft); return 0; }
   rcref_update(r,ft-1,ft,ft); return 1;
}

/* 4.1.3.3 ec_dec_icdf(): ec_decode(1<<ftb); search for the first k with fs < (1<<ftb)-icdf[k];
   update with fl=(1<<ftb)-icdf[k-1] (0 if k==0), fh=(1<<ftb)-icdf[k], ft=1<<ftb.  Table ends with 0. */
RCREF_FN static int rcref_icdf_any(rcref *r, const unsigned char *t8, const uint16_t *t16, unsigned ftb){
   uint64_t ft=(uint64_t)1<<ftb, fl=0, fh; uint32_t fs=rcref_decode(r,ft); int k=0;
   for(;;){
      unsigned e = t8 ? t8[k] : t16[k];
      fh = ft - e;
      if (fs < fh) break;
      if (e==0){ r->broken=1; break; }                       /* cannot happen: fs < ft */
      fl = fh; k++;
   }
   rcref_update(r,fl,fh,ft);
   return k;
}
RCREF_FN static int rcref_icdf(rcref *r, const unsigned char *icdf, unsigned ftb){ return rcref_icdf_any(r,icdf,0,ftb); }
RCREF_FN static int rcref_icdf16(rcref *r, const uint16_t *icdf, unsigned ftb){ return rcref_icdf_any(r,0,icdf,ftb); }

/* "Decoding Raw Bits": "the least significant bit of the first value packed in the least significant bit of the
   last byte, filling up to the most significant bit in the last byte, continuing on to the least significant bit
   of the penultimate byte".  Bits beyond the frame read as zero (the text leaves that case to the decoder). */
RCREF_FN static uint32_t rcref_bits(rcref *r, unsigned n){
   uint32_t v=0; unsigned i;
   for(i=0;i<n;i++){
      uint64_t p=r->rawpos+i, byte=p>>3;
      unsigned bit = byte < r->nbytes ? (r->frame[r->nbytes-1-byte]>>(p&7))&1 : 0;
      v |= (uint32_t)bit<<i;
   }
   r->rawpos += n;
   r->nbits_total += n;                                      /* "Reading raw bits increases nbits_total by the number of raw bits read" */
   return v;
}

/* "Decoding Uniformly Distributed Integers" */
RCREF_FN static uint32_t rcref_uint(rcref *r, uint64_t ft){
   int ftb = rcref_ilog(ft-1);
   uint64_t t;
   if (ftb<=8){
      t = rcref_decode(r,ft);
      rcref_update(r,t,t+1,ft);
      return (uint32_t)t;
   }
   {
      uint64_t ft2 = ((ft-1)>>(ftb-8))+1;
      t = rcref_decode(r,ft2);
      rcref_update(r,t,t+1,ft2);
      t = (t<<(ftb-8)) | rcref_bits(r,(unsigned)(ftb-8));
      if (t>=ft){ r->corrupt=1; }                            /* "If, at this point, t >= ft, then the current frame is corrupt" */
      return (uint32_t)t;
   }
}

/* "ec_tell()": nbits_total - ilog(rng) */
RCREF_FN static int64_t rcref_tell(const rcref *r){ return r->nbits_total - rcref_ilog(r->rng); }

/* "ec_tell_frac()": r_Q15 = rng>>(lg-16); three times { r=(r*r)>>15; lg=2*lg+(r>>16); if that bit was 1, r>>=1 };
   returns nbits_total*8 - lg */
RCREF_FN static int64_t rcref_frac_of(int64_t nbits_total, uint64_t rng){
   int64_t lg = rcref_ilog(rng); uint64_t rq = rng>>(lg-16); int i;
   for(i=0;i<3;i++){
      uint64_t b;
      rq = (rq*rq)>>15;
      b = rq>>16;
      lg = 2*lg + (int64_t)b;
      if (b) rq >>= 1;
   }
   return nbits_total*8 - lg;
}
RCREF_FN static int64_t rcref_tell_frac(const rcref *r){ return rcref_frac_of(r->nbits_total, r->rng); }

#endif
