/* C18 shared pieces: reference stability test, ordering/spacing oracle, "what a bitstream can carry" masks,
 * link-time capture of the 32-bit coefficients inside silk_NLSF2A (for the "fits its 16-bit format" clause).
 *
 * Oracles (all from the property statement):
 *   O1  NLSFs strictly increasing, gaps >= the codebook's minimum spacing (RFC 6716 table, frozen below) incl. the gap to 0 and to 1.0 (32768)
 *   O2  the Q12 coefficients written by silk_NLSF2A are the rounded 32-bit coefficients, not a wrapped cast
 *   O3  prediction filter stable: every reflection coefficient |k| < 1 in an independent double-precision step-down
 *   O4  prediction power gain bounded: <= GAIN_LIMIT (library's documented cap MAX_PREDICTION_POWER_GAIN = 1e4 = 40 dB,
 *       relaxed to 2.5e4 (43.98 dB); calibration on the unchanged tree: worst 40.22 dB, worst |k| 0.999751 over the thorough space of 2.85e8 vectors, see spec.json level_note)
 *   O5  the library's own measure silk_LPC_inverse_pred_gain_c is non-zero on what NLSF2A returns (the mechanism the anchors name)
 *
 * SIGN CONVENTION: SILK's whitening filter is A(z) = 1 - sum_k a_k z^-k  (a_k = predictor taps), synthesis 1/A(z).
 * ref_selftest() pins this down at start-up: the step-down gain must equal the energy of the simulated impulse response of
 * 1/A(z) and a known-unstable filter must be rejected, otherwise the harness refuses to run (machinery error, not a verdict).
 */
#ifndef C18_COMMON_H
#define C18_COMMON_H
#include <stdlib.h>
#include <string.h>
#include <math.h>
#include "main.h"
#include "tables.h"
#include "pitch_est_defines.h"
#include "cpu_support.h"
#include "mc.h"

#define GAIN_LIMIT 2.5e4      /* 43.98 dB: calibrated worst case 40.22 dB (library cap MAX_PREDICTION_POWER_GAIN = 40 dB) + >= 3 dB margin (G1) */

static const silk_NLSF_CB_struct *CB[2];
static const char *CBN[2]={"NB_MB","WB"};
static void c18_init_cb(void){ CB[0]=&silk_NLSF_CB_NB_MB; CB[1]=&silk_NLSF_CB_WB; }

/* ---- O3/O4 reference: step-down (backward Levinson) in double ---- */
static int ref_stepdown(const opus_int16 *a_Q12,int order,double *maxk,double *gain){
   double a[MAX_LPC_ORDER],t[MAX_LPC_ORDER],inv=1.0,mk=0; int m,i;
   for(i=0;i<order;i++) a[i]=a_Q12[i]/4096.0;
   for(m=order-1;m>=0;m--){
      double k=a[m],ak=fabs(k),den;             /* reflection coefficient of stage m+1 (sign irrelevant for |k| and 1-k^2) */
      if(ak>mk) mk=ak;
      if(!(ak<1.0)){ *maxk=mk; *gain=INFINITY; return 0; }
      den=1.0-k*k; inv*=den;
      for(i=0;i<m;i++) t[i]=(a[i]+k*a[m-1-i])/den;
      memcpy(a,t,sizeof(double)*m);
   }
   *maxk=mk; *gain=1.0/inv; return 1;
}
/* energy of the impulse response of 1/A(z), A(z)=1-sum a_k z^-k : equals the prediction power gain for a stable filter */
static double ref_impulse_energy(const opus_int16 *a_Q12,int order,int n){
   double h[MAX_LPC_ORDER]={0},e=0; int i,t;
   for(t=0;t<n;t++){ double y=(t==0)?1.0:0.0; for(i=0;i<order;i++) y+=a_Q12[i]/4096.0*h[i]; for(i=order-1;i>0;i--) h[i]=h[i-1]; h[0]=y; e+=y*y; if(!(e<1e30)) return INFINITY; }
   return e;
}
static int ref_selftest(void){
   /* one-pole: a1=0.5 -> H=1/(1-0.5 z^-1): gain 1/(1-0.25); a1=1.25 unstable; two-pole resonator r=0.9 */
   opus_int16 a[16]; double mk,g,e; int ok=1;
   memset(a,0,sizeof a); a[0]=2048; ok&=ref_stepdown(a,10,&mk,&g)&&fabs(g-1/0.75)<1e-9&&fabs(mk-0.5)<1e-12; e=ref_impulse_energy(a,10,200); ok&=fabs(e-g)<1e-6;
   memset(a,0,sizeof a); a[0]=5120; ok&=!ref_stepdown(a,10,&mk,&g);
   memset(a,0,sizeof a); a[0]=(opus_int16)lrint(2*0.9*cos(0.7)*4096); a[1]=(opus_int16)lrint(-0.81*4096); ok&=ref_stepdown(a,16,&mk,&g); e=ref_impulse_energy(a,16,4000); ok&=fabs(e/g-1)<1e-6;
   /* wrong-sign version of the same resonator (a_k negated taps of A(z)=1+...) is still stable (poles mirrored) but a growing one is not */
   memset(a,0,sizeof a); a[0]=(opus_int16)lrint(2*1.05*cos(0.7)*4096); a[1]=(opus_int16)lrint(-1.1025*4096); ok&=!ref_stepdown(a,16,&mk,&g);
   return ok;
}

/* ---- "values a bitstream can carry": a symbol is codable iff its ICDF interval is non-empty ---- */
static int icdf_width(const opus_uint8 *icdf,int s){ return (s?icdf[s-1]:256)-icdf[s]; }
static unsigned carri[2][32];            /* bit c: stage-1 index codable under signalType>>1 == c */
static unsigned carrr[2][32][16];        /* bit (v+10): residual value v codable at this position */
static long n_uncodable;
static void mk_carriable(void){
   int cb,i0,k,v; n_uncodable=0;
   for(cb=0;cb<2;cb++) for(i0=0;i0<CB[cb]->nVectors;i0++){
      opus_int16 ec_ix[MAX_LPC_ORDER]; opus_uint8 pred[MAX_LPC_ORDER];
      carri[cb][i0]=(icdf_width(CB[cb]->CB1_iCDF,i0)>0?1:0)|(icdf_width(CB[cb]->CB1_iCDF+CB[cb]->nVectors,i0)>0?2:0);
      silk_NLSF_unpack(ec_ix,pred,CB[cb],i0);
      for(k=0;k<CB[cb]->order;k++){
         unsigned m=0; const opus_uint8 *t=&CB[cb]->ec_iCDF[ec_ix[k]];
         for(v=-NLSF_QUANT_MAX_AMPLITUDE_EXT;v<=NLSF_QUANT_MAX_AMPLITUDE_EXT;v++){
            int s=v<-NLSF_QUANT_MAX_AMPLITUDE?0:v>NLSF_QUANT_MAX_AMPLITUDE?2*NLSF_QUANT_MAX_AMPLITUDE:v+NLSF_QUANT_MAX_AMPLITUDE, ok=icdf_width(t,s)>0;
            if(ok&&(v<=-NLSF_QUANT_MAX_AMPLITUDE||v>=NLSF_QUANT_MAX_AMPLITUDE)){ int e=abs(v)-NLSF_QUANT_MAX_AMPLITUDE; ok=icdf_width(silk_NLSF_EXT_iCDF,e)>0; }
            if(ok) m|=1u<<(v+10); else n_uncodable++;
         }
         carrr[cb][i0][k]=m;
      }
   }
}
static int codable(int cb,int i0,int k,int v){ return (carrr[cb][i0][k]>>(v+10))&1; }
static int ext_hi(int cb,int i0,int k){ int v; for(v=10;v>0;v--) if(codable(cb,i0,k,v)) return v; return 0; }
static int ext_lo(int cb,int i0,int k){ int v; for(v=-10;v<0;v++) if(codable(cb,i0,k,v)) return v; return 0; }

/* ---- O1 ---- returns 0 ok, else clause number.  "The codebook's minimum spacing" is taken from the codec specification
 * (doc/draft-ietf-codec-opus.xml = RFC 6716, table "Minimum Spacing for Normalized LSF Coefficients"), frozen here, so that a change of the
 * library's own deltaMin table cannot silently weaken the oracle. */
static const opus_int16 RFC_DMIN[2][MAX_LPC_ORDER+1]={{250,3,6,3,3,3,4,3,3,3,461},{100,3,40,3,3,3,5,14,14,10,11,3,8,9,7,3,347}};
static int cb_index(const silk_NLSF_CB_struct *C){ return C->order==16; }
static int nlsf_clause(const opus_int16 *n,const silk_NLSF_CB_struct *C){
   int k,L=C->order; const opus_int16 *dmin=RFC_DMIN[cb_index(C)];
   for(k=0;k<L;k++) if(n[k]<0) return 5;
   for(k=1;k<L;k++) if(n[k]<=n[k-1]) return 1;
   if(n[0]<dmin[0]) return 2;
   for(k=1;k<L;k++) if(n[k]-n[k-1]<dmin[k]) return 3;
   if(32768-n[L-1]<dmin[L]) return 4;
   return 0;
}
static const char *NLSF_CLAUSE[6]={"ok","order","spacing_first","spacing_mid","spacing_last","negative"};

/* ---- O2: capture of the 32-bit coefficients inside silk_NLSF2A (link with -Wl,--wrap=silk_NLSF2A,--wrap=silk_LPC_fit,--wrap=silk_bwexpander_32) ---- */
#ifdef C18_WRAP
void __real_silk_NLSF2A(opus_int16*,const opus_int16*,const opus_int,int);
void __real_silk_LPC_fit(opus_int16*,opus_int32*,const opus_int,const opus_int,const opus_int);
void __real_silk_bwexpander_32(opus_int32*,const opus_int,opus_int32);
static struct { int active; opus_int32 *ptr; opus_int32 a32[MAX_LPC_ORDER]; int shift,d,fit_calls,bwe_after_fit,fit_inner_bwe,in_fit; } cap;
/* results of the most recent NLSF2A calls (decode_parameters makes up to two) */
typedef struct { opus_int16 nlsf[MAX_LPC_ORDER]; opus_int16 a[MAX_LPC_ORDER]; int d,fit_bad,bad_k,bwe,fitchg; opus_int32 want; } nlsf2a_rec;
static nlsf2a_rec n2a[4]; static int n2a_n;
static opus_int32 rr32(opus_int32 x,int s){ return (opus_int32)((((opus_int64)x>>(s-1))+1)>>1); }
void __wrap_silk_LPC_fit(opus_int16 *o,opus_int32 *in,const opus_int QOUT,const opus_int QIN,const opus_int d){
   if(cap.active){ cap.ptr=in; cap.in_fit=1; }
   __real_silk_LPC_fit(o,in,QOUT,QIN,d);
   if(cap.active){ cap.in_fit=0; cap.fit_calls++; cap.shift=QIN-QOUT; cap.d=d; memcpy(cap.a32,in,sizeof(opus_int32)*d); }
}
void __wrap_silk_bwexpander_32(opus_int32 *ar,const opus_int d,opus_int32 chirp){
   __real_silk_bwexpander_32(ar,d,chirp);
   if(cap.active&&ar==cap.ptr){ if(cap.in_fit) cap.fit_inner_bwe++; else { cap.bwe_after_fit++; memcpy(cap.a32,ar,sizeof(opus_int32)*d); } }
}
void __wrap_silk_NLSF2A(opus_int16 *a,const opus_int16 *NLSF,const opus_int d,int arch){
   nlsf2a_rec *r=&n2a[n2a_n&3]; int k;
   memset(&cap,0,sizeof cap); cap.active=1;
   __real_silk_NLSF2A(a,NLSF,d,arch);
   cap.active=0;
   memcpy(r->nlsf,NLSF,sizeof(opus_int16)*d); memcpy(r->a,a,sizeof(opus_int16)*d); r->d=d; r->fit_bad=0; r->bwe=cap.bwe_after_fit; r->fitchg=cap.fit_inner_bwe;
   if(cap.fit_calls!=1||cap.d!=d) r->fit_bad=2;       /* capture did not see the conversion: treat as machinery problem by caller */
   else for(k=0;k<d;k++){ opus_int32 w=rr32(cap.a32[k],cap.shift); if(w!=(opus_int32)a[k]){ r->fit_bad=1; r->bad_k=k; r->want=w; break; } }
   n2a_n++;
}
#endif

static const char *vec16(const opus_int16 *v,int n){ static char ring[8][400]; static int r; char *o=ring[r=(r+1)&7]; int i,k=0; for(i=0;i<n;i++) k+=sprintf(o+k,"%s%d",i?",":"",v[i]); return o; }
static const char *vec8(const opus_int8 *v,int n){ static char ring[8][400]; static int r; char *o=ring[r=(r+1)&7]; int i,k=0; for(i=0;i<n;i++) k+=sprintf(o+k,"%s%d",i?",":"",v[i]); return o; }

/* ---- residual pattern alphabet for pairs (interp / encdec / e2e): pattern p of (cb,i0) ---- */
#define NPAT 32
static void mk_pattern(int cb,int i0,int p,opus_int8 *idx /* [order+1] */){
   int k,ord=CB[cb]->order; idx[0]=(opus_int8)i0;
   for(k=0;k<ord;k++){
      int s;    /* -1,0,+1 */ int amp_full=1;
      switch(p){
      case 0: s=0; break; case 1: s=1; break; case 2: s=-1; break; case 3: s=(k&1)?-1:1; break; case 4: s=(k&1)?1:-1; break;
      case 5: s=k<ord/2?1:-1; break; case 6: s=k<ord/2?-1:1; break; case 7: s=(k&2)?-1:1; break;
      default: { int w=p-7; if(w>15){ w-=15; amp_full=0; } s=(__builtin_popcount(k&w)&1)?-1:1; if(p>=8+15+5) s=(k%(p-26))?0:s; } break;
      }
      if(s==0) idx[1+k]=0;
      else if(amp_full) idx[1+k]=(opus_int8)(s>0?ext_hi(cb,i0,k):ext_lo(cb,i0,k));
      else { int v=4*s; idx[1+k]=(opus_int8)(codable(cb,i0,k,v)?v:0); }
   }
}
#endif
