/* C18 — part "e2e": the side-information tuples injected as real bitstreams.
 *
 * Every tuple is written with the library's own range encoder (ec_enc_icdf / ec_enc_bit_logp) and the SILK ICDF tables in exactly the order
 * silk_decode_indices reads it (VAD/LBRR header, then per frame: type/offset, gains, NLSF stage 1 + residuals with the extension symbols,
 * interpolation factor, absolute or delta lag, contour, LTP, LTP scaling, seed) followed by silk_encode_pulses, giving a mono SILK-only payload for
 * {8,12,16} kHz x {10,20,40,60} ms.  The payload goes (1) through silk_InitDecoder/silk_Decode frame by frame, twice in a row on the same decoder,
 * and (2) behind the matching TOC byte through opus_decode_float on a 48 kHz decoder, under AddressSanitizer with hardening asserts on.
 *
 * Enumeration (E2, deviation-bounded): per frame 12 fields (type/offset 6, first gain 6, remaining gains 6, NLSF stage-1 32, residual pattern 8,
 * interpolation 5, lag 6 incl. delta symbols that run past both ends of the lag range, contour = whole table, LTP 7, LTP scale 3, seed 4,
 * excitation 4); all packets that differ from the default tuple in <= K fields (K = 2 quick; 3 thorough for <= 40 ms), over all frames of the packet.
 * A symbol whose ICDF interval is empty cannot be carried by any bitstream; such tuples are skipped and counted.
 *
 * Oracles: no ASan report / hardening abort / hang; silk_Decode returns 0 and the advertised sample count; the decoder parsed exactly the injected
 * indices (guards against a vacuous writer); afterwards LastGainIndex in 0..63, NLSF state ordered with minimum spacing and equal to silk_NLSF_decode of
 * the injected indices, lagPrev and the exported pitch inside the legal range; every output sample finite and |x| <= 1.
 */
#include "c18_common.h"
#include "API.h"
#include "opus.h"

#define NF 12
enum { F_TYPE,F_G0,F_GD,F_I0,F_PAT,F_INTERP,F_LAG,F_CONTOUR,F_LTP,F_LTPSCALE,F_SEED,F_PULSES };
static const char *FN[NF]={"type","gain0","gains1-3","nlsf_i0","nlsf_pattern","interp","lag","contour","ltp","ltpscale","seed","pulses"};
static mc_ctr *c_eval,*c_states,*c_trans,*c_dn,*c_unc,*c_silk,*c_opus;
static mc_set *pk,*obs;
static int K,K60;
static const int FSS[3]={8,12,16}, DUR[4]={10,20,40,60};

typedef struct { int fs,dur,nfr,nb,cb,ord,ncont,lomax,frame_len; const opus_uint8 *lowbits,*contour; } cfg_t;
static cfg_t cfg;
static int nval[3*NF];         /* alphabet size of packet field (frame*NF+field) */
static int val[3*NF];          /* current value index, 0 = default */

static void set_cfg(int ci){
   silk_decoder_state d; int f;
   cfg.fs=FSS[ci/4]; cfg.dur=DUR[ci%4]; cfg.nfr=cfg.dur<=20?1:cfg.dur/20; cfg.nb=cfg.dur==10?2:4; cfg.cb=cfg.fs==16; cfg.ord=CB[cfg.cb]->order;
   silk_init_decoder(&d); d.nb_subfr=cfg.nb; silk_decoder_set_fs(&d,cfg.fs,16000); cfg.lowbits=d.pitch_lag_low_bits_iCDF; cfg.contour=d.pitch_contour_iCDF; cfg.frame_len=d.frame_length;
   cfg.ncont= cfg.fs==8?(cfg.nb==4?11:3):(cfg.nb==4?34:12); cfg.lomax=cfg.fs/2-1;
   for(f=0;f<cfg.nfr;f++){ int *n=&nval[f*NF];
      n[F_TYPE]=6; n[F_G0]=6; n[F_GD]=6; n[F_I0]=32; n[F_PAT]=8; n[F_INTERP]=cfg.nb==4?5:1; n[F_LAG]=6; n[F_CONTOUR]=cfg.ncont; n[F_LTP]=7; n[F_LTPSCALE]=f==0?3:1; n[F_SEED]=4; n[F_PULSES]=4; }
}
/* field value tables */
static const int TYPEV[6][3]={{1,2,0},{1,2,1},{1,1,0},{1,1,1},{0,0,0},{0,0,1}};     /* vad,type,qoff */
static const int G0I[6]={25,0,10,31,63,47}, G0C[6]={4,0,2,12,40,20};
static const int GDP[6][3]={{4,4,4},{0,0,0},{40,40,40},{40,0,40},{0,40,0},{8,8,8}};
static const int INTERPV[5]={4,0,1,2,3};
static const int LTPV[7][5]={{1,5,5,5,5},{0,0,0,0,0},{0,7,7,7,7},{1,15,15,15,15},{2,31,31,31,31},{2,0,0,0,0},{1,0,15,0,15}};

static int uncodable;
static void put(ec_enc *e,int s,const opus_uint8 *icdf){ if(icdf_width(icdf,s)<=0){ uncodable=1; return; } ec_enc_icdf(e,s,icdf,8); }

typedef struct { SideInfoIndices ix; int vad; } expect_t;
static expect_t expv[3];
static unsigned char pktbuf[1500]; static int pktlen;
static opus_int8 pulsebuf[MAX_FRAME_LENGTH+32];

static void mk_pulses(int kind,int n){
   int i; memset(pulsebuf,0,sizeof pulsebuf);
   switch(kind){
   case 0: for(i=0;i<n;i+=7) pulsebuf[i]=(opus_int8)((i&1)?-1:1); break;
   case 1: break;
   case 2: for(i=0;i<n;i++) pulsebuf[i]=(opus_int8)((i%3==0)?60:(i%3==1)?-45:17); break;
   case 3: pulsebuf[n/2]=127; pulsebuf[n/2+1]=-127; break;
   }
}
/* build the payload for the current val[]; returns 0 if some symbol cannot be coded */
static int build_packet(void){
   ec_enc e; int f,i,prevType=-1,prevLag=0,n; uncodable=0;
   memset(pktbuf,0,sizeof pktbuf); ec_enc_init(&e,pktbuf+1,sizeof pktbuf-1);
   for(f=0;f<cfg.nfr;f++) ec_enc_bit_logp(&e,TYPEV[val[f*NF+F_TYPE]][0],1);
   ec_enc_bit_logp(&e,0,1);                                    /* no LBRR */
   for(f=0;f<cfg.nfr;f++){
      const int *v=&val[f*NF]; int cond=f>0, vad=TYPEV[v[F_TYPE]][0], type=TYPEV[v[F_TYPE]][1], qoff=TYPEV[v[F_TYPE]][2]; SideInfoIndices *x=&expv[f].ix;
      const silk_NLSF_CB_struct *C=CB[cfg.cb]; opus_int16 ec_ix[MAX_LPC_ORDER]; opus_uint8 pred[MAX_LPC_ORDER]; opus_int8 nidx[MAX_LPC_ORDER+1];
      memset(x,0,sizeof *x); expv[f].vad=vad;
      if(vad) put(&e,type*2+qoff-2,silk_type_offset_VAD_iCDF); else put(&e,qoff,silk_type_offset_no_VAD_iCDF);
      x->signalType=(opus_int8)type; x->quantOffsetType=(opus_int8)qoff;
      if(cond){ int g=G0C[v[F_G0]]; put(&e,g,silk_delta_gain_iCDF); x->GainsIndices[0]=(opus_int8)g; }
      else { int g=G0I[v[F_G0]]; put(&e,g>>3,silk_gain_iCDF[type]); put(&e,g&7,silk_uniform8_iCDF); x->GainsIndices[0]=(opus_int8)g; }
      for(i=1;i<cfg.nb;i++){ int g=GDP[v[F_GD]][i-1]; put(&e,g,silk_delta_gain_iCDF); x->GainsIndices[i]=(opus_int8)g; }
      mk_pattern(cfg.cb,v[F_I0],v[F_PAT],nidx); memcpy(x->NLSFIndices,nidx,cfg.ord+1);
      put(&e,nidx[0],&C->CB1_iCDF[(type>>1)*C->nVectors]);
      silk_NLSF_unpack(ec_ix,pred,C,nidx[0]);
      for(i=0;i<cfg.ord;i++){ int r=nidx[1+i]; const opus_uint8 *t=&C->ec_iCDF[ec_ix[i]];
         if(r>=NLSF_QUANT_MAX_AMPLITUDE){ put(&e,2*NLSF_QUANT_MAX_AMPLITUDE,t); put(&e,r-NLSF_QUANT_MAX_AMPLITUDE,silk_NLSF_EXT_iCDF); }
         else if(r<=-NLSF_QUANT_MAX_AMPLITUDE){ put(&e,0,t); put(&e,-r-NLSF_QUANT_MAX_AMPLITUDE,silk_NLSF_EXT_iCDF); }
         else put(&e,r+NLSF_QUANT_MAX_AMPLITUDE,t); }
      if(cfg.nb==4){ put(&e,INTERPV[v[F_INTERP]],silk_NLSF_interpolation_factor_iCDF); x->NLSFInterpCoef_Q2=(opus_int8)INTERPV[v[F_INTERP]]; } else x->NLSFInterpCoef_Q2=4;
      if(type==TYPE_VOICED){
         int absolute=1,hi=10,lo=0,lv=v[F_LAG],lag;
         static const int ABS[6][2]={{10,0},{0,0},{31,-1},{31,0},{0,-1},{16,1}};       /* lo = -1: maximum */
         if(cond&&prevType==TYPE_VOICED){
            static const int DS[6]={9,1,20,5,0,0};
            int ds=DS[lv]; put(&e,ds,silk_pitch_delta_iCDF);
            if(ds>0){ absolute=0; lag=prevLag+ds-9; } else { hi=lv==4?31:0; lo=lv==4?cfg.lomax:0; }
         } else { hi=ABS[lv][0]; lo=ABS[lv][1]<0?cfg.lomax:ABS[lv][1]; }
         if(absolute){ put(&e,hi,silk_pitch_lag_iCDF); put(&e,lo,cfg.lowbits); lag=hi*(cfg.fs>>1)+lo; }
         x->lagIndex=(opus_int16)lag; prevLag=(opus_int16)lag;
         put(&e,v[F_CONTOUR],cfg.contour); x->contourIndex=(opus_int8)v[F_CONTOUR];
         put(&e,LTPV[v[F_LTP]][0],silk_LTP_per_index_iCDF); x->PERIndex=(opus_int8)LTPV[v[F_LTP]][0];
         for(i=0;i<cfg.nb;i++){ put(&e,LTPV[v[F_LTP]][1+i],silk_LTP_gain_iCDF_ptrs[LTPV[v[F_LTP]][0]]); x->LTPIndex[i]=(opus_int8)LTPV[v[F_LTP]][1+i]; }
         if(!cond){ put(&e,v[F_LTPSCALE],silk_LTPscale_iCDF); x->LTP_scaleIndex=(opus_int8)v[F_LTPSCALE]; }
      }
      prevType=type;
      put(&e,v[F_SEED],silk_uniform4_iCDF); x->Seed=(opus_int8)v[F_SEED];
      if(uncodable) return 0;
      mk_pulses(v[F_PULSES],cfg.frame_len);
      silk_encode_pulses(&e,type,qoff,pulsebuf,cfg.frame_len);
      if(ec_get_error(&e)) return 0;
   }
   n=(ec_tell(&e)+7)>>3; ec_enc_done(&e); if(ec_get_error(&e)||n>1275) return 0;
   pktlen=n;
   pktbuf[0]=(unsigned char)((((cfg.fs==8?0:cfg.fs==12?4:8)+(cfg.dur==10?0:cfg.dur==20?1:cfg.dur==40?2:3))<<3)|0);
   return 1;
}
static const char *desc(void){
   static char b[700]; int k=0,f,i; k+=sprintf(b+k,"fs=%dkHz %dms",cfg.fs,cfg.dur);
   for(f=0;f<cfg.nfr;f++) for(i=0;i<NF;i++) if(val[f*NF+i]) k+=sprintf(b+k," frame%d.%s=#%d",f,FN[i],val[f*NF+i]);
   k+=sprintf(b+k," | payload(%d)=%s",pktlen,mc_hex(pktbuf+1,pktlen<80?pktlen:80)); return b;
}
static void *silkdec; static OpusDecoder *odec; static unsigned char *gpkt;
static void run_packet(void){
   silk_DecControlStruct dc; silk_decoder_state *cs=(silk_decoder_state*)silkdec; int rep,f,i; float out[960*3+16]; static float pcm[2880+16];
   if(!build_packet()){ MC_INC(c_unc); return; }
   MC_INC(c_eval);
   if(!mc_set_add(pk,mc_hash(pktbuf,pktlen+1,cfg.fs*100+cfg.dur))) return;      /* identical bitstream already decoded (inapplicable field) */
   mc_case_bytes("silk_Decode",pktbuf,pktlen+1,cfg.fs,cfg.dur,0);
   memcpy(gpkt+(1500-pktlen-1),pktbuf,pktlen+1);                       /* packet ends exactly at the end of a heap block */
   silk_InitDecoder(silkdec);
   for(rep=0;rep<2;rep++){
      ec_dec d; memset(&dc,0,sizeof dc); dc.nChannelsAPI=1; dc.nChannelsInternal=1; dc.API_sampleRate=16000; dc.internalSampleRate=cfg.fs*1000; dc.payloadSize_ms=cfg.dur;
      ec_dec_init(&d,gpkt+(1500-pktlen),pktlen);
      for(f=0;f<cfg.nfr;f++){
         opus_int32 ns=-1; int r; const SideInfoIndices *g=&cs->indices,*x=&expv[f].ix; int want=16*(cfg.dur<=20?cfg.dur:20), mism=0;
         r=silk_Decode(silkdec,&dc,0,f==0,&d,out,&ns,opus_select_arch()); MC_INC(c_silk); MC_INC(c_trans);
         if(r!=0||ns!=want){ mc_fail("e2e:silk_Decode:return","ret=%d nSamplesOut=%d (want 0,%d) frame %d | %s",r,ns,want,f,desc()); return; }
         /* the decoder must have parsed what was written */
         if(g->signalType!=x->signalType||g->quantOffsetType!=x->quantOffsetType||memcmp(g->GainsIndices,x->GainsIndices,cfg.nb)||memcmp(g->NLSFIndices,x->NLSFIndices,cfg.ord+1)||g->Seed!=x->Seed) mism=1;
         if(!(cs->first_frame_after_reset) && cfg.nb==4 && !(rep==0&&f==0) && g->NLSFInterpCoef_Q2!=x->NLSFInterpCoef_Q2) mism=2;
         if(x->signalType==TYPE_VOICED&&(g->lagIndex!=x->lagIndex||g->contourIndex!=x->contourIndex||g->PERIndex!=x->PERIndex||memcmp(g->LTPIndex,x->LTPIndex,cfg.nb)||g->LTP_scaleIndex!=x->LTP_scaleIndex)) mism=3;
         if(mism){ mc_fail("harness:e2e_writer_mismatch","kind %d frame %d: decoder parsed type=%d gains=[%s] nlsf=[%s] interp=%d lag=%d contour=%d; written type=%d gains=[%s] nlsf=[%s] interp=%d lag=%d contour=%d | %s",mism,f,g->signalType,vec8(g->GainsIndices,4),vec8(g->NLSFIndices,cfg.ord+1),g->NLSFInterpCoef_Q2,g->lagIndex,g->contourIndex,x->signalType,vec8(x->GainsIndices,4),vec8(x->NLSFIndices,cfg.ord+1),x->NLSFInterpCoef_Q2,x->lagIndex,x->contourIndex,desc()); return; }
         if(cs->LastGainIndex<0||cs->LastGainIndex>63){ mc_fail("e2e:gain_index_range","LastGainIndex=%d after frame %d | %s",cs->LastGainIndex,f,desc()); return; }
         { int cl=nlsf_clause(cs->prevNLSF_Q15,CB[cfg.cb]); opus_int16 ref[MAX_LPC_ORDER]; opus_int8 t[MAX_LPC_ORDER+1]; memcpy(t,x->NLSFIndices,sizeof t); silk_NLSF_decode(ref,t,CB[cfg.cb]);
           if(cl){ char sig[64]; snprintf(sig,sizeof sig,"e2e:nlsf_%s",NLSF_CLAUSE[cl]); mc_fail(sig,"decoder NLSF state [%s] after frame %d | %s",vec16(cs->prevNLSF_Q15,cfg.ord),f,desc()); return; }
           if(memcmp(ref,cs->prevNLSF_Q15,sizeof(opus_int16)*cfg.ord)){ mc_fail("e2e:nlsf_state_differs","decoder NLSF state [%s] != silk_NLSF_decode of the injected indices [%s] | %s",vec16(cs->prevNLSF_Q15,cfg.ord),vec16(ref,cfg.ord),desc()); return; } }
         if(x->signalType==TYPE_VOICED){
            if(cs->lagPrev<2*cfg.fs||cs->lagPrev>18*cfg.fs){ mc_fail("e2e:lag_range","lagPrev=%d outside [%d,%d] after frame %d (lagIndex %d contour %d) | %s",cs->lagPrev,2*cfg.fs,18*cfg.fs,f,x->lagIndex,x->contourIndex,desc()); return; }
            if(dc.prevPitchLag<96||dc.prevPitchLag>864){ mc_fail("e2e:exported_pitch_range","prevPitchLag=%d outside [96,864] | %s",dc.prevPitchLag,desc()); return; }
         }
         for(i=0;i<ns;i++) if(!(out[i]>=-1.0f&&out[i]<=1.0f)){ mc_fail("e2e:silk_output_unbounded","sample %d of frame %d = %g | %s",i,f,out[i],desc()); return; }
         { int lg=x->signalType==TYPE_VOICED?(x->lagIndex<0?1:x->lagIndex>=16*cfg.fs?2:0):3; uint64_t h=mc_mix(mc_mix(cfg.fs,cfg.dur),mc_mix(mc_mix(f,x->signalType),mc_mix(lg,mc_mix(cs->LastGainIndex==0?0:cs->LastGainIndex==63?2:1,x->NLSFInterpCoef_Q2))));
           if(mc_set_add(obs,h)&&(lg==1||lg==2||(cs->LastGainIndex==0&&f>0))) mc_sample("%s -> frame %d decoded: type=%d LastGainIndex=%d lagIndex=%d lagPrev=%d exported pitch=%d NLSF=[%s]",desc(),f,x->signalType,cs->LastGainIndex,x->signalType==TYPE_VOICED?x->lagIndex:-1,cs->lagPrev,dc.prevPitchLag,vec16(cs->prevNLSF_Q15,cfg.ord)); }
      }
   }
   /* public API */
   mc_case_bytes("opus_decode_float",pktbuf,pktlen+1,cfg.fs,cfg.dur,1);
   opus_decoder_init(odec,48000,1);
   for(rep=0;rep<2;rep++){
      int want=48*cfg.dur, r=opus_decode_float(odec,gpkt+(1500-pktlen-1),pktlen+1,pcm,2880,0); MC_INC(c_opus); MC_INC(c_trans);
      if(r!=want){ mc_fail("e2e:opus_decode_float:return","returned %d, want %d | %s",r,want,desc()); return; }
      for(i=0;i<r;i++) if(!(pcm[i]>=-1.0f&&pcm[i]<=1.0f)){ mc_fail("e2e:opus_output_unbounded","sample %d = %g | %s",i,pcm[i],desc()); return; }
      { opus_int32 p=-1; opus_decoder_ctl(odec,OPUS_GET_PITCH(&p)); if(p!=0&&(p<96||p>864)){ mc_fail("e2e:OPUS_GET_PITCH_range","pitch %d outside [96,864] | %s",p,desc()); return; } }
   }
}
/* all packets with <= k further deviating fields among fields > from */
static void rec(int from,int k){
   int nf=cfg.nfr*NF,f,v;
   run_packet();
   if(k==0) return;
   for(f=from;f<nf;f++) for(v=1;v<nval[f];v++){ val[f]=v; rec(f+1,k-1); val[f]=0; }
}
static long first_count(int ci){ int f; long n=1; set_cfg(ci); for(f=0;f<cfg.nfr*NF;f++) n+=nval[f]-1; return n; }
static long base[13];
static void item(long it,void *ctx){
   int ci,f,k; long r; (void)ctx;
   for(ci=0;ci<12&&it>=base[ci+1];ci++);
   set_cfg(ci); r=it-base[ci]; memset(val,0,sizeof val); k=cfg.dur==60?K60:K;
   mc_case("e2e_item","config fs=%d dur=%d first deviation #%ld",cfg.fs,cfg.dur,r);
   if(r==0){ run_packet(); return; }                /* the default tuple */
   r--; for(f=0;f<cfg.nfr*NF;f++){ if(r<nval[f]-1){ val[f]=(int)r+1; rec(f+1,k-1); val[f]=0; return; } r-=nval[f]-1; }
}
int main(int argc,char **argv){
   int ci,sz=0;
   mc_init(argc,argv,"C18","e2e"); c18_init_cb(); mk_carriable();
   K=(int)mc_arg("--k",MC.tier?3:2); K60=(int)mc_arg("--k60",2);
   c_eval=mc_counter("evaluations"); c_states=mc_counter("states"); c_trans=mc_counter("transitions"); c_dn=mc_counter("distinct_nontrivial"); c_unc=mc_counter("tuples_not_codable");
   c_silk=mc_counter("silk_Decode_calls"); c_opus=mc_counter("opus_decode_float_calls");
   pk=mc_set_new(MC.tier?25:22); obs=mc_set_new(16);
   silk_Get_Decoder_Size(&sz); if(sz<(int)(2*sizeof(silk_decoder_state))){ fprintf(stderr,"C18: unexpected SILK decoder size\n"); return 2; }
   silkdec=malloc(sz); odec=malloc(opus_decoder_get_size(1)); gpkt=malloc(1500);
   base[0]=0; for(ci=0;ci<12;ci++) base[ci+1]=base[ci]+first_count(ci);
   mc_info("deviation bound K=%d (60 ms: %d); first-level items=%ld",K,K60,base[12]);
   mc_par(base[12],item,NULL);
   *c_states=mc_set_count(pk); *c_dn=mc_set_count(obs);
   return mc_finish();
}
