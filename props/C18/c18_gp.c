/* C18 — parts "gains" and "pitch".
 *
 * gains: explicit-state model checking of the gain-index accumulator inside the real silk_gains_dequant.
 *   state   = prev_ind (the decoder's LastGainIndex), 0..63; initial state after a decoder reset = 10
 *   inputs  = 64 independently coded indices (first sub-frame, condCoding != CONDITIONALLY)  U  41 delta symbols (silk_delta_gain_iCDF has 41 entries)
 *   (a) every one of the 64 x 105 single-sub-frame transitions is executed on the real function (nb_subfr = 1): successor in 0..63 (inductive
 *       invariant => holds for every history of any length), gain inside [81920, 1686110208] (RFC 6716 4.2.7.4: the range of the quantiser,
 *       2 dB .. 88 dB), gain a function of the successor state only;
 *   (b) breadth-first search from the reset state with a visited set: which states are reachable, at which depth;
 *   (c) every chained call: 64 states x 105 first inputs x 41^(nb_subfr-1) delta tails for nb_subfr = 4 and 2, on the real 4-/2-sub-frame call;
 *       every intermediate gain and the final state must equal the composition of the single transitions of (a) and satisfy the invariants;
 *   (d) encoder side: silk_gains_quant on a 256-point log-spaced gain grid (first two sub-frames: all pairs; sub-frames 3,4: 16 pairs) x all 64 previous
 *       indices x {independent, conditional} x {4,2} sub-frames, then silk_gains_dequant from the same previous index: identical gains and
 *       identical final index; every produced index inside what the bitstream can carry (0..63 / 0..40).
 * pitch: silk_decode_pitch for every 16-bit lagIndex (the bitstream's absolute index, and anything the unclamped delta accumulation in
 *   silk_decode_indices can reach incl. int16 wrap) x every contour index of the table in force x {8,12,16} kHz x {2,4} sub-frames:
 *   every lag inside [2 ms, 18 ms] x fs (RFC 6716 4.2.7.6.1: 16..144 / 24..216 / 32..288).
 *   Encoder side: silk_pitch_analysis_core_FLP on pulse trains of every period 2..18 ms x drift {-6,0,+6}% x {8,12,16} kHz x {2,4} sub-frames x
 *   complexity 0..2 x {no previous lag, previous lag}: voiced results carry codable indices and silk_decode_pitch reproduces the encoder's lags.
 */
#include "c18_common.h"

#define GMIN 81920
#define GMAX 1686110208
static mc_ctr *c_eval,*c_states,*c_trans,*c_dn;
static mc_set *vis,*obs;
static int T1[64][105]; static opus_int32 G1[64][105]; static opus_int32 Gof[64]; static int Gset[64];
static int tail_full;

static int step_real(int prev,int in,opus_int32 *g){  /* in <64: independent index; else delta symbol in-64 */
   opus_int8 ind[MAX_NB_SUBFR]={0},p=(opus_int8)prev; opus_int32 gq[MAX_NB_SUBFR]={0};
   ind[0]=(opus_int8)(in<64?in:in-64); silk_gains_dequant(gq,ind,&p,in>=64,1); *g=gq[0]; return p;
}
static void build_T1(void){   /* parent, before fork: the transition table of the real function; verdicts on it are items (item_single) */
   int prev,in;
   for(prev=0;prev<64;prev++) for(in=0;in<105;in++){ opus_int32 g; int nx=step_real(prev,in,&g); T1[prev][in]=nx; G1[prev][in]=g; if(nx>=0&&nx<=63&&!Gset[nx]){ Gset[nx]=1; Gof[nx]=g; } }
}
static void item_single(int prev){
   int in; mc_case("gains_single","prev_ind=%d",prev);
   for(in=0;in<105;in++){
      opus_int32 g; int nx=step_real(prev,in,&g); MC_INC(c_eval); MC_INC(c_trans);
      if(nx<0||nx>63){ mc_fail(in<64?"gains_dequant:index_range:independent":"gains_dequant:index_range:delta","prev_ind=%d %s=%d -> prev_ind=%d outside 0..63 (gain_Q16=%d)",prev,in<64?"index":"delta symbol",in<64?in:in-64,nx,g); continue; }
      if(g<GMIN||g>GMAX) mc_fail(in<64?"gains_dequant:gain_range:independent":"gains_dequant:gain_range:delta","prev_ind=%d %s=%d -> prev_ind=%d gain_Q16=%d outside [%d,%d]",prev,in<64?"index":"delta symbol",in<64?in:in-64,nx,g,GMIN,GMAX);
      if(Gof[nx]!=g) mc_fail("gains_dequant:gain_not_function_of_index","prev_ind=%d input=%d -> index %d gain %d, but index %d gave %d elsewhere",prev,in,nx,g,nx,Gof[nx]);
      mc_set_add(obs,mc_mix(mc_mix(1,prev),mc_mix(in,nx))); mc_set_add(vis,mc_mix(0,nx));
   }
}
static void bfs(void){
   int depth[64],q[64],h=0,t=0,i,in,maxd=0,nreach=0; for(i=0;i<64;i++) depth[i]=-1;
   depth[10]=0; q[t++]=10; mc_set_add(vis,mc_mix(7,10));
   while(h<t){ int s=q[h++]; for(in=0;in<105;in++){ int nx=T1[s][in]; if(nx<0||nx>63) continue; if(mc_set_add(vis,mc_mix(7,nx))){ depth[nx]=depth[s]+1; q[t++]=nx; } } }
   for(i=0;i<64;i++) if(depth[i]>=0){ nreach++; if(depth[i]>maxd) maxd=depth[i]; }
   mc_info("BFS from reset state prev_ind=10: %d of 64 states reachable, eccentricity %d sub-frames; delta-only reachability below",nreach,maxd);
   { mc_ctr *r=mc_counter("states_reachable_from_reset"); *r=nreach; }
   /* delta inputs alone (conditional coding forever) */
   for(i=0;i<64;i++) depth[i]=-1; h=t=0; depth[10]=0; q[t++]=10;
   while(h<t){ int s=q[h++]; for(in=64;in<105;in++){ int nx=T1[s][in]; if(nx<0||nx>63) continue; if(depth[nx]<0){ depth[nx]=depth[s]+1; q[t++]=nx; } } }
   nreach=0; for(i=0;i<64;i++) if(depth[i]>=0) nreach++;
   mc_info("delta symbols only: %d of 64 states reachable from 10",nreach);
   mc_sample("reset state 10 --delta symbol 40 (=+36, double-step region)--> %d (gain_Q16 %d) --delta symbol 40--> %d --delta symbol 40--> %d (clamped at 63, gain %d)",T1[10][104],G1[10][104],T1[T1[10][104]][104],T1[T1[T1[10][104]][104]][104],Gof[63]);
   mc_sample("state 3 --delta symbol 0 (=-4)--> %d (clamped at 0, gain_Q16 %d); state 63 --independent index 0--> %d (index may not fall by more than 16)",T1[3][64],G1[3][64],T1[63][0]);
}
static unsigned char seenks[5][64];
static void item_chain(long it){
   int prev=(int)(it/105),in0=(int)(it%105),nb,a,b,c; long le=0,lt=0;
   mc_case("gains_chain","prev_ind=%d first input=%d",prev,in0);
   for(nb=4;nb>=2;nb-=2){
      int na=41,nbb=nb==4?41:1,nc=nb==4?41:1;
      for(a=0;a<na;a++) for(b=0;b<nbb;b+=1) for(c=0;c<nc;c+=(tail_full?1:5)){
         opus_int8 ind[4],p=(opus_int8)prev; opus_int32 g[4]; int s,k,ins[4];
         ind[0]=(opus_int8)(in0<64?in0:in0-64); ind[1]=(opus_int8)a; ind[2]=(opus_int8)b; ind[3]=(opus_int8)c;
         ins[0]=in0; ins[1]=64+a; ins[2]=64+b; ins[3]=64+c;
         silk_gains_dequant(g,ind,&p,in0>=64,nb); le++; lt+=nb;
         s=prev;
         for(k=0;k<nb;k++){
            int nx=T1[s][ins[k]];
            if(g[k]<GMIN||g[k]>GMAX){ mc_fail("gains_dequant:chain:gain_range","prev_ind=%d cond=%d ind=[%d,%d,%d,%d] nb_subfr=%d: gain[%d]=%d",prev,in0>=64,ind[0],ind[1],ind[2],ind[3],nb,k,g[k]); break; }
            if(nx>=0&&nx<=63&&g[k]!=Gof[nx]){ mc_fail("gains_dequant:chain:differs_from_single_steps","prev_ind=%d cond=%d ind=[%d,%d,%d,%d] nb_subfr=%d: gain[%d]=%d, single-step composition gives index %d gain %d",prev,in0>=64,ind[0],ind[1],ind[2],ind[3],nb,k,g[k],nx,Gof[nx]); break; }
            s=nx; if(s<0||s>63) break;
            if(!seenks[k+1][s]){ seenks[k+1][s]=1; mc_set_add(vis,mc_mix(k+1,s)); }
         }
         if(p<0||p>63) mc_fail("gains_dequant:chain:index_range","prev_ind=%d cond=%d ind=[%d,%d,%d,%d] nb_subfr=%d: final prev_ind=%d",prev,in0>=64,ind[0],ind[1],ind[2],ind[3],nb,p);
         else if(k==nb&&p!=s) mc_fail("gains_dequant:chain:final_state_differs","prev_ind=%d cond=%d ind=[%d,%d,%d,%d] nb_subfr=%d: final %d, composition %d",prev,in0>=64,ind[0],ind[1],ind[2],ind[3],nb,p,s);
      }
   }
   MC_ADD(c_eval,le); MC_ADD(c_trans,lt);
}
/* ---- encoder side ---- */
static opus_int32 grid[256];
static const int TAILP[16][2]={{0,0},{255,255},{0,255},{255,0},{128,128},{100,160},{160,100},{64,65},{200,40},{40,200},{129,127},{90,90},{180,181},{255,128},{128,0},{30,31}};
static void item_quant(long it){
   int prev=(int)(it>>1),cond=(int)(it&1),nb,i,j,t,k; long le=0;
   mc_case("gains_quant","prev_ind=%d conditional=%d",prev,cond);
   for(nb=4;nb>=2;nb-=2) for(i=0;i<256;i++) for(j=0;j<256;j++) for(t=0;t<(nb==4?16:1);t++){
      opus_int32 gin[4],gq[4],gd[4]; opus_int8 ind[4]={0},pe=(opus_int8)prev,pd=(opus_int8)prev; int bad=0;
      gin[0]=grid[i]; gin[1]=grid[j]; gin[2]=grid[TAILP[t][0]]; gin[3]=grid[TAILP[t][1]]; memcpy(gq,gin,sizeof gq);
      silk_gains_quant(ind,gq,&pe,cond,nb); le++;
      for(k=0;k<nb;k++){ int hi=(k==0&&!cond)?63:40; if(ind[k]<0||ind[k]>hi){ mc_fail((k==0&&!cond)?"gains_quant:index_not_codable:independent":"gains_quant:index_not_codable:delta","prev_ind=%d cond=%d gains_in=[%d,%d,%d,%d] nb_subfr=%d -> ind[%d]=%d outside 0..%d",prev,cond,gin[0],gin[1],gin[2],gin[3],nb,k,ind[k],hi); bad=1; break; } }
      if(bad) continue;
      silk_gains_dequant(gd,ind,&pd,cond,nb);
      for(k=0;k<nb;k++) if(gd[k]!=gq[k]){ mc_fail("gains_quant:dequant_differs","prev_ind=%d cond=%d gains_in=[%d,%d,%d,%d] nb_subfr=%d -> ind=[%d,%d,%d,%d]; encoder's quantised gain[%d]=%d, decoder reconstructs %d",prev,cond,gin[0],gin[1],gin[2],gin[3],nb,ind[0],ind[1],ind[2],ind[3],k,gq[k],gd[k]); bad=1; break; }
      if(!bad&&pd!=pe) mc_fail("gains_quant:final_index_differs","prev_ind=%d cond=%d gains_in=[%d,%d,%d,%d] nb_subfr=%d -> ind=[%d,%d,%d,%d]; encoder state %d decoder state %d",prev,cond,gin[0],gin[1],gin[2],gin[3],nb,ind[0],ind[1],ind[2],ind[3],pe,pd);
      if(!bad&&(pe<0||pe>63)) mc_fail("gains_quant:index_range","prev_ind=%d cond=%d gains_in=[%d,%d,%d,%d] -> encoder prev_ind=%d",prev,cond,gin[0],gin[1],gin[2],gin[3],pe);
      if(t==0&&nb==4){ uint64_t h=mc_mix(mc_mix(3,prev*2+cond),mc_mix(ind[0],ind[1])); if(mc_set_add(obs,h)&&i>=100&&j>=60&&((i*31+j*17+prev)%1009==0)) mc_sample("quant: prev_ind=%d cond=%d gains_Q16 in=[%d,%d,%d,%d] -> ind=[%d,%d,%d,%d] quantised=[%d,%d,%d,%d] final index %d; dequant from the same prev_ind: identical",prev,cond,gin[0],gin[1],gin[2],gin[3],ind[0],ind[1],ind[2],ind[3],gq[0],gq[1],gq[2],gq[3],pe); }
   }
   MC_ADD(c_eval,le); MC_ADD(c_trans,le);
}

static void item_gains(long it,void *ctx){ (void)ctx; if(it<64L*105) item_chain(it); else if(it<64L*105+128) item_quant(it-64L*105); else item_single((int)(it-64L*105-128)); }

/* ---- pitch ---- */
static mc_ctr *c_clamped;
static void item_pitch(long it,void *ctx){
   static const int FS[3]={8,12,16}; int f=(int)(it/512),nb=((it/256)&1)?4:2,chunk=(int)(it%256),fs=FS[f],ncb,lag,c,k; long le=0,lc=0; (void)ctx;
   int lo=2*fs,hi=18*fs;    /* RFC 6716: 2 ms .. 18 ms */
   ncb= fs==8 ? (nb==4?11:3) : (nb==4?34:12);   /* entries of silk_pitch_contour_{NB_,10_ms_NB_,,10_ms_}iCDF = what the bitstream can carry */
   mc_case("decode_pitch","fs=%d nb_subfr=%d lagIndex chunk %d",fs,nb,chunk);
   for(lag=-32768+chunk*256;lag<-32768+(chunk+1)*256;lag++) for(c=0;c<ncb;c++){
      int pl[4]={-1,-1,-1,-1}; silk_decode_pitch((opus_int16)lag,(opus_int8)c,pl,fs,nb); le++;
      for(k=0;k<nb;k++) if(pl[k]<lo||pl[k]>hi){ char sig[64]; snprintf(sig,sizeof sig,"decode_pitch:lag_range:%dkHz:%dsubfr",fs,nb); mc_fail(sig,"lagIndex=%d contourIndex=%d fs=%d kHz nb_subfr=%d -> lags [%d,%d,%d,%d] outside [%d,%d]",lag,c,fs,nb,pl[0],pl[1],pl[2],pl[3],lo,hi); break; }
      if(pl[0]==lo||pl[0]==hi||pl[nb-1]==lo||pl[nb-1]==hi) lc++;
      if(lag>=-64&&lag<=16*fs+64){ uint64_t h=mc_hash(pl,sizeof pl,fs*8+nb); mc_set_add(obs,h); if((lag==-9||lag==0||lag==16*fs-1||lag==16*fs+11)&&c==ncb-1) mc_sample("fs=%d kHz nb_subfr=%d lagIndex=%d contourIndex=%d -> lags [%d,%d,%d,%d] legal range [%d,%d]",fs,nb,lag,c,pl[0],pl[1],pl[2],pl[3],lo,hi); }
   }
   MC_ADD(c_eval,le); MC_ADD(c_trans,le); MC_ADD(c_clamped,lc);
}


/* ---- encoder-side pitch quantisation: what silk_pitch_analysis_core_FLP reports as the lags it chose (and the encoder then filters with) must be
 *      what the decoder reconstructs from (lagIndex, contourIndex); indices must be codable ---- */
#include "SigProc_FLP.h"
static mc_ctr *c_voiced;
static void item_pitchenc(long it){
   static const int FS[3]={8,12,16}; int f=(int)(it/6),nb=((it/3)&1)?4:2,cx=(int)(it%3),fs=FS[f],T0,dr,pv,n,k; long le=0,lv=0;
   int len=(PE_LTP_MEM_LENGTH_MS+nb*PE_SUBFR_LENGTH_MS)*fs, ncb= fs==8?(nb==4?11:3):(nb==4?34:12); static silk_float x[PE_MAX_FRAME_LENGTH+64];
   mc_case("pitch_analysis","fs=%d nb_subfr=%d complexity=%d",fs,nb,cx);
   for(T0=2*fs;T0<=18*fs;T0++) for(dr=-1;dr<=1;dr++) for(pv=0;pv<2;pv++){
      int po[4]={0,0,0,0},dl[4]={0,0,0,0},r; opus_int16 li=-1; opus_int8 ci=-1; silk_float corr=0.0f; uint32_t lcg=12345u+T0; double ph=0;
      for(n=0;n<len;n++){ double T=T0*(1.0+0.06*dr*n/len); ph+=1.0/T; if(ph>=1.0){ ph-=1.0; x[n]=1000.0f; } else x[n]=(n>0?x[n-1]*0.6f:0.0f); x[n]+=(float)((int)(mc_lcg(&lcg)>>24)-128)*0.05f; }
      r=silk_pitch_analysis_core_FLP(x,po,&li,&ci,&corr,pv?T0:0,0.7f-0.1f*cx,0.3f,fs,cx,nb,opus_select_arch()); le++;
      if(r!=0) continue;
      lv++;
      if(li<0||li>=16*fs||ci<0||ci>=ncb){ mc_fail("pitch_analysis:index_not_codable","fs=%d nb_subfr=%d complexity=%d period=%d drift=%d prevLag=%d -> lagIndex=%d contourIndex=%d (codable: 0..%d, 0..%d)",fs,nb,cx,T0,dr,pv?T0:0,li,ci,16*fs-1,ncb-1); continue; }
      silk_decode_pitch(li,ci,dl,fs,nb);
      for(k=0;k<nb;k++) if(dl[k]!=po[k]){ mc_fail("pitch_analysis:decoder_lags_differ","fs=%d nb_subfr=%d complexity=%d period=%d drift=%d prevLag=%d -> lagIndex=%d contourIndex=%d encoder lags [%d,%d,%d,%d] decoder lags [%d,%d,%d,%d]",fs,nb,cx,T0,dr,pv?T0:0,li,ci,po[0],po[1],po[2],po[3],dl[0],dl[1],dl[2],dl[3]); break; }
      if(mc_set_add(obs,mc_mix(mc_mix(99,fs*8+nb),mc_mix(li,ci)))&&T0%37==0&&dr) mc_sample("pitch analysis fs=%d nb_subfr=%d complexity=%d pulse train period %d drift %+d%% -> lagIndex=%d contourIndex=%d lags [%d,%d,%d,%d]; silk_decode_pitch gives the same",fs,nb,cx,T0,6*dr,li,ci,po[0],po[1],po[2],po[3]);
   }
   MC_ADD(c_eval,le); MC_ADD(c_trans,le); MC_ADD(c_voiced,lv);
}
static void item_pitch_all(long it,void *ctx){ if(it<3L*512) item_pitch(it,ctx); else item_pitchenc(it-3L*512); }

int main(int argc,char **argv){
   const char *mode; int i;
   mc_init(argc,argv,"C18","gains");
   mode=mc_arg_s("--mode","gains"); MC.part=mode; c18_init_cb();
   tail_full=(int)mc_arg("--tailfull",1);
   c_eval=mc_counter("evaluations"); c_states=mc_counter("states"); c_trans=mc_counter("transitions"); c_dn=mc_counter("distinct_nontrivial"); c_clamped=mc_counter("lag_vectors_touching_a_limit");
   vis=mc_set_new(16); obs=mc_set_new(22);
   if(!strcmp(mode,"gains")){
      /* what the bitstream can carry: table sizes */
      if(sizeof(silk_delta_gain_iCDF)!=41||sizeof(silk_gain_iCDF[0])!=8||sizeof(silk_uniform8_iCDF)!=8){ fprintf(stderr,"C18: gain ICDF table sizes changed\n"); return 2; }
      for(i=0;i<256;i++){ double x=pow(2.0,i*31.0/255.0); grid[i]= x>=2147483647.0?2147483647:(opus_int32)x; if(grid[i]<1) grid[i]=1; }
      build_T1(); bfs();
      mc_par(64L*105+128+64,item_gains,NULL);
      *c_states=mc_set_count(vis); *c_dn=mc_set_count(obs);
   } else if(!strcmp(mode,"pitch")){
      if(sizeof(silk_pitch_contour_iCDF)!=34||sizeof(silk_pitch_contour_NB_iCDF)!=11||sizeof(silk_pitch_contour_10_ms_iCDF)!=12||sizeof(silk_pitch_contour_10_ms_NB_iCDF)!=3){ fprintf(stderr,"C18: contour ICDF table sizes changed\n"); return 2; }
      c_voiced=mc_counter("pitch_analysis_voiced_results"); mc_par(3L*512+18,item_pitch_all,NULL);
      *c_states=*c_eval; *c_dn=mc_set_count(obs);
      if(*c_voiced<1000){ fprintf(stderr,"C18: pitch analysis produced too few voiced results (%ld) - encoder-side pitch check vacuous\n",*c_voiced); mc_capped("encoder-side pitch check found fewer than 1000 voiced results"); }
   } else { fprintf(stderr,"unknown mode %s\n",mode); return 2; }
   return mc_finish();
}
