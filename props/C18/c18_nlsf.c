/* C18 — part "nlsf", "interp", "encdec": NLSF side information -> ordered NLSFs -> stable, bounded, 16-bit prediction filters.
 *
 * nlsf   (E3, deviation-bounded product enumeration of index vectors a bitstream can carry, through the real
 *         silk_NLSF_decode -> silk_NLSF2A -> silk_LPC_inverse_pred_gain_c):
 *           both codebooks x all 32 stage-1 indices x residual vectors
 *             S_j : exactly j non-zero positions, j <= Dfull, every codable value -10..10 at each         (Dfull = 2 quick / 3 thorough)
 *             T_j : exactly j non-zero positions, Dfull < j <= Dsub, values from {-10,-5,-1,1,5,10}        (Dsub  = 3 quick / 4 thorough)
 *             X   : all vectors over {lo,0,hi} (lo/hi = extreme codable value, = -10/+10) with more than Dsub and at most Kx non-zeros
 *                   (order 10: Kx = 10, i.e. all 3^10; order 16: Kx = 4 quick / 6 thorough)
 *             B   : order 16: all 2^16 sign-extreme vectors
 *           The strata are disjoint (different numbers of non-zeros / value sets), so every index vector is visited once.
 *         oracles O1..O5 of c18_common.h.
 * interp (decoder's own path silk_decode_parameters on a real silk_decoder_state): all ordered pairs (previous, current) from an
 *         alphabet of 32 stage-1 x P residual patterns (P = 8 quick / 32 thorough) x interpolation factor 0..4 x {no loss, after loss}
 *         x {8,12,16} kHz: both filters O2..O5, decoded NLSF state O1, gains and pitch lags in range.
 * encdec (last sentence of the statement): silk_process_NLSFs on an encoder state, then silk_decode_parameters on a decoder state fed the
 *         produced indices: identical NLSFs and identical prediction filters for both half frames; indices codable.  Targets (the encoder's domain:
 *         non-decreasing vectors as silk_A2NLSF delivers them): decoded alphabet vectors, the same perturbed by +-23 / +-160 alternating and re-sorted,
 *         and silk_A2NLSF( silk_NLSF2A( vector ) ), i.e. the analysis chain's output for the gain-limited filter of that vector.
 */
#define C18_WRAP
#include "c18_common.h"

static mc_ctr *c_eval,*c_states,*c_trans,*c_stab,*c_bwe,*c_fitc,*c_worstk_e6,*c_worstg_mdB,*c_skip;
static mc_set *classes,*nlsfset;
static int Dfull,Dsub,Kx16,track_nlsf,arch;
static const int VSUB[6]={-10,-5,-1,1,5,10};

/* per-process accumulators, flushed per item */
static long l_eval,l_stab,l_bwe,l_fitc,l_skip; static double l_worstk,l_worstg;
static unsigned char *seen_cls;
static int cur_cb,cur_i0; static opus_int8 idx[MAX_LPC_ORDER+1];

/* verdict on one prediction filter: bitmask 1 fit16, 2 unstable, 4 gain, 8 invgain0, 16 capture missed */
static int filter_verdict(const opus_int16 *a,int ord,const nlsf2a_rec *r,double *mk,double *g,opus_int32 *inv){
   int m=0;
   if(r){ if(r->fit_bad==2) m|=16; else if(r->fit_bad) m|=1; }
   if(!ref_stepdown(a,ord,mk,g)) m|=2; else if(*g>GAIN_LIMIT) m|=4;
   *inv=silk_LPC_inverse_pred_gain_c(a,ord); if(*inv==0) m|=8;
   if(!(m&2)){ if(*mk>l_worstk) l_worstk=*mk; if(*g>l_worstg) l_worstg=*g; }
   return m;
}
static void report_filter(const char *where,int m,const opus_int16 *a,int ord,const nlsf2a_rec *r,double mk,double g,const char *ctx){
   char sig[96];
   if(m&16){ snprintf(sig,sizeof sig,"harness:capture_missed:%s",where); mc_fail(sig,"silk_LPC_fit was not observed exactly once inside silk_NLSF2A (%s)",ctx); return; }
   if(m&1){ snprintf(sig,sizeof sig,"%s:fit16",where); mc_fail(sig,"coefficient %d stored as %d but the rounded 32-bit value is %d (wrapped cast) | %s | nlsf=[%s] a_Q12=[%s]",r->bad_k,a[r->bad_k],r->want,ctx,vec16(r->nlsf,ord),vec16(a,ord)); }
   if(m&2){ snprintf(sig,sizeof sig,"%s:unstable",where); mc_fail(sig,"reflection coefficient |k|=%.6f >= 1 in double step-down | %s | a_Q12=[%s]",mk,ctx,vec16(a,ord)); }
   if(m&4){ snprintf(sig,sizeof sig,"%s:gain",where); mc_fail(sig,"prediction power gain %.1f (%.2f dB) > %.0f | %s | a_Q12=[%s]",g,10*log10(g),GAIN_LIMIT,ctx,vec16(a,ord)); }
   if(m&8){ snprintf(sig,sizeof sig,"%s:invgain0",where); mc_fail(sig,"silk_LPC_inverse_pred_gain_c returns 0 for the filter NLSF2A produced (ref: max|k|=%.6f gain=%.2f dB) | %s | a_Q12=[%s]",mk,10*log10(g),ctx,vec16(a,ord)); }
}
/* convenience for the low-rate parts: ctx already built */
static int check_filter(const char *where,const opus_int16 *a,int ord,const nlsf2a_rec *r,const char *ctx){
   double mk,g; opus_int32 inv; int m=filter_verdict(a,ord,r,&mk,&g,&inv); if(m) report_filter(where,m,a,ord,r,mk,g,ctx); return m;
}
static double GB[16];   /* gain bucket edges: 3 dB steps */

static void eval_vec(void){
   const silk_NLSF_CB_struct *C=CB[cur_cb]; int ord=C->order,cl,k,tight=0,gb,cls,m; opus_int16 nlsf[MAX_LPC_ORDER],a[MAX_LPC_ORDER]; nlsf2a_rec *r; double mk,g; opus_int32 inv;
   opus_int8 tmp[MAX_LPC_ORDER+1]; memcpy(tmp,idx,sizeof tmp);
   silk_NLSF_decode(nlsf,tmp,C); l_eval++;
   cl=nlsf_clause(nlsf,C);
   if(cl){ char sig[64]; snprintf(sig,sizeof sig,"nlsf_decode:%s:%s",NLSF_CLAUSE[cl],CBN[cur_cb]); mc_fail(sig,"cb=%s idx=[%s] -> NLSF_Q15=[%s] deltaMin=[%s]",CBN[cur_cb],vec8(idx,ord+1),vec16(nlsf,ord),vec16(RFC_DMIN[cur_cb],ord+1)); }
   n2a_n=0; silk_NLSF2A(a,nlsf,ord,arch); r=&n2a[0];
   m=filter_verdict(a,ord,r,&mk,&g,&inv);
   if(m){ char ctx[200]; snprintf(ctx,sizeof ctx,"cb=%s idx=[%s]",CBN[cur_cb],vec8(idx,ord+1)); report_filter(cur_cb?"nlsf2a:WB":"nlsf2a:NB_MB",m,a,ord,r,mk,g,ctx); }
   l_stab++; l_bwe+=r->bwe>0; l_fitc+=r->fitchg>0;
   /* observation class */
   if(nlsf[0]==RFC_DMIN[cur_cb][0]) tight++; for(k=1;k<ord;k++) if(nlsf[k]-nlsf[k-1]==RFC_DMIN[cur_cb][k]) tight++; if(32768-nlsf[ord-1]==RFC_DMIN[cur_cb][ord]) tight++;
   if(tight>3) tight=3;
   for(gb=0;gb<15&&g>=GB[gb+1];gb++);
   cls=((((cur_cb*32+cur_i0)*17+(r->bwe>16?16:r->bwe))*2+(r->fitchg>0))*16+gb)*4+tight;
   if(!seen_cls[cls]){ seen_cls[cls]=1;
      if(mc_set_add(classes,mc_mix(0xC18,cls)) && (r->bwe>0||r->fitchg>0||tight>0||gb>=10))
         mc_sample("cb=%s idx=[%s] -> NLSF_Q15=[%s] gaps_at_deltaMin=%d -> a_Q12=[%s] LPC_fit_chirps=%d stabilising_bwe=%d ref: max|k|=%.5f gain=%.2f dB invgain_Q30=%d",
                   CBN[cur_cb],vec8(idx,ord+1),vec16(nlsf,ord),tight,vec16(a,ord),r->fitchg,r->bwe,mk,10*log10(g),inv); }
   if(track_nlsf) mc_set_add(nlsfset,mc_hash(nlsf,sizeof(opus_int16)*ord,cur_cb+1));
}

/* exactly j non-zero positions, lowest one = p1 */
static void rec(int level,int j,int from,int p1,int full){
   int ord=CB[cur_cb]->order,p,v,i;
   if(level==j){ eval_vec(); return; }
   for(p=(level==0?p1:from); p<(level==0?p1+1:ord); p++){
      if(ord-p<j-level) break;
      if(full){ for(v=-10;v<=10;v++){ if(!v) continue; if(!codable(cur_cb,cur_i0,p,v)){ l_skip++; continue; } idx[1+p]=(opus_int8)v; rec(level+1,j,p+1,p1,full); } }
      else for(i=0;i<6;i++){ v=VSUB[i]; if(!codable(cur_cb,cur_i0,p,v)){ l_skip++; continue; } idx[1+p]=(opus_int8)v; rec(level+1,j,p+1,p1,full); }
      idx[1+p]=0;
   }
}
/* ternary {lo,0,hi}: nnz in (Dsub, Kx] */
static void tern(int p,int nnz,int Kx){
   int ord=CB[cur_cb]->order;
   if(p==ord){ if(nnz>Dsub||nnz==0) eval_vec(); return; }   /* nnz==0: the all-zero residual, visited here once */
   if(nnz+(ord-p)<=Dsub && !(nnz==0)) { /* cannot exceed Dsub any more: only the all-zero vector may still qualify */ return; }
   idx[1+p]=0; tern(p+1,nnz,Kx);
   if(nnz<Kx){ int h=ext_hi(cur_cb,cur_i0,p),l=ext_lo(cur_cb,cur_i0,p);
      if(h){ idx[1+p]=(opus_int8)h; tern(p+1,nnz+1,Kx); } if(l){ idx[1+p]=(opus_int8)l; tern(p+1,nnz+1,Kx); } idx[1+p]=0; }
}
static void flush(void){
   MC_ADD(c_eval,l_eval); MC_ADD(c_states,l_eval); MC_ADD(c_trans,l_stab); MC_ADD(c_stab,l_stab); MC_ADD(c_bwe,l_bwe); MC_ADD(c_fitc,l_fitc); MC_ADD(c_skip,l_skip);
   MC_MAX(c_worstk_e6,(long)(l_worstk*1e6)); if(l_worstg>0) MC_MAX(c_worstg_mdB,(long)(10000*log10(l_worstg)));
   l_eval=l_stab=l_bwe=l_fitc=l_skip=0;
}
static int items_per(int cb){ return CB[cb]->order+2; }
static void item_nlsf(long it,void *ctx){
   int cb=0,i0,sub,ord,j; (void)ctx;
   if(it>=32L*items_per(0)){ cb=1; it-=32L*items_per(0); }
   i0=(int)(it/items_per(cb)); sub=(int)(it%items_per(cb)); ord=CB[cb]->order; cur_cb=cb; cur_i0=i0;
   memset(idx,0,sizeof idx); idx[0]=(opus_int8)i0;
   mc_case(cb?"nlsf_WB":"nlsf_NB_MB","cb=%s i0=%d stratum=%d (0..order-1: deviation sets with lowest position = stratum; order: ternary extremes; order+1: binary extremes)",CBN[cb],i0,sub);
   if(!carri[cb][i0]){ l_skip++; flush(); return; }
   if(sub<ord){ for(j=1;j<=Dsub;j++) rec(0,j,0,sub,j<=Dfull); }
   else if(sub==ord){ tern(0,0,ord==10?10:Kx16); }
   else if(ord==16){ long c; int k; for(c=0;c<65536;c++){ for(k=0;k<16;k++){ idx[1+k]=(opus_int8)(((c>>k)&1)?ext_hi(cb,i0,k):ext_lo(cb,i0,k)); } if(Kx16<16) eval_vec(); } }
   flush();
}

/* ------------------------------------------------------------------ interp ------------------------------------------------------------------ */
static int P; static const int FS[3]={8,12,16};
static silk_decoder_state *dec0;     /* initialised template per fs */
static silk_decoder_state decT[3];
static void setup_dec(silk_decoder_state *d,int fs,int nb_subfr){
   silk_init_decoder(d); d->nb_subfr=nb_subfr; d->nFramesPerPacket=1; silk_decoder_set_fs(d,fs,16000); d->first_frame_after_reset=0;
}
static int check_gains_pitch(const char *where,const silk_decoder_state *d,const silk_decoder_control *c,const char *ctx){
   int k,bad=0; char sig[64];
   if(d->LastGainIndex<0||d->LastGainIndex>N_LEVELS_QGAIN-1){ snprintf(sig,sizeof sig,"%s:gain_index_range",where); mc_fail(sig,"LastGainIndex=%d | %s",d->LastGainIndex,ctx); bad=1; }
   for(k=0;k<d->nb_subfr;k++) if(c->Gains_Q16[k]<81920||c->Gains_Q16[k]>1686110208){ snprintf(sig,sizeof sig,"%s:gain_range",where); mc_fail(sig,"Gains_Q16[%d]=%d outside [81920,1686110208] | %s",k,c->Gains_Q16[k],ctx); bad=1; break; }
   if(d->indices.signalType==TYPE_VOICED) for(k=0;k<d->nb_subfr;k++) if(c->pitchL[k]<2*d->fs_kHz||c->pitchL[k]>18*d->fs_kHz){ snprintf(sig,sizeof sig,"%s:lag_range",where); mc_fail(sig,"pitchL[%d]=%d outside [%d,%d] | %s",k,c->pitchL[k],2*d->fs_kHz,18*d->fs_kHz,ctx); bad=1; break; }
   return bad;
}
static void item_interp(long it,void *ctx){
   int f=(int)(it/(32*P)), pa=(int)(it%(32*P)), fs=FS[f], cb=fs==16, ord=CB[cb]->order, ca,coef,loss; (void)ctx;
   opus_int8 pidx[MAX_LPC_ORDER+1],cidx[MAX_LPC_ORDER+1]; opus_int16 prevn[MAX_LPC_ORDER]; silk_decoder_state d; silk_decoder_control dc; char cx[400];
   mc_case("interp","fs=%d prev=(i0=%d,pattern=%d)",fs,pa/P,pa%P);
   mk_pattern(cb,pa/P,pa%P,pidx); { opus_int8 t[17]; memcpy(t,pidx,17); silk_NLSF_decode(prevn,t,CB[cb]); }
   for(ca=0;ca<32*P;ca++){
      mk_pattern(cb,ca/P,ca%P,cidx);
      for(coef=0;coef<=4;coef++) for(loss=0;loss<2;loss++){
         memcpy(&d,&decT[f],sizeof d); memset(&dc,0,sizeof dc);
         memcpy(d.prevNLSF_Q15,prevn,sizeof(opus_int16)*ord); memcpy(d.indices.NLSFIndices,cidx,ord+1);
         d.indices.NLSFInterpCoef_Q2=(opus_int8)coef; d.lossCnt=loss;
         d.indices.signalType=TYPE_VOICED; d.indices.lagIndex=(opus_int16)((ca*7+pa)%(16*fs)); d.indices.contourIndex=(opus_int8)((ca+coef)%(fs==8?11:34));
         d.indices.GainsIndices[0]=(opus_int8)((ca+pa)&63); d.indices.GainsIndices[1]=(opus_int8)(ca%41); d.indices.GainsIndices[2]=(opus_int8)(pa%41); d.indices.GainsIndices[3]=(opus_int8)((ca*3)%41);
         d.LastGainIndex=(opus_int8)((pa*5)&63);
         n2a_n=0; silk_decode_parameters(&d,&dc,CODE_INDEPENDENTLY); l_eval++;
         snprintf(cx,sizeof cx,"fs=%d prev_idx=[%s] cur_idx=[%s] interp_Q2=%d lossCnt=%d prevNLSF=[%s]",fs,vec8(pidx,ord+1),vec8(cidx,ord+1),coef,loss,vec16(prevn,ord));
         { int cl=nlsf_clause(d.prevNLSF_Q15,CB[cb]); if(cl){ char sig[64]; snprintf(sig,sizeof sig,"decode_parameters:nlsf_%s",NLSF_CLAUSE[cl]); mc_fail(sig,"NLSF state after decode [%s] | %s",vec16(d.prevNLSF_Q15,ord),cx); } }
         if(n2a_n!=(coef<4?2:1)){ mc_fail("harness:nlsf2a_calls","expected %d NLSF2A calls, saw %d | %s",coef<4?2:1,n2a_n,cx); continue; }
         /* call 0 = second-half filter (current NLSFs), call 1 = first-half (interpolated) */
         if(loss==0){
            check_filter("decode_parameters:cur",dc.PredCoef_Q12[1],ord,&n2a[0],cx); l_stab++;
            if(coef<4){ check_filter("decode_parameters:interp",dc.PredCoef_Q12[0],ord,&n2a[1],cx); l_stab++; l_bwe+=n2a[1].bwe>0; l_fitc+=n2a[1].fitchg>0;
               { int k,tight=0,inv=0; for(k=1;k<ord;k++){ if(n2a[1].nlsf[k]-n2a[1].nlsf[k-1]<RFC_DMIN[cb][k]) tight=1; if(n2a[1].nlsf[k]<=n2a[1].nlsf[k-1]) inv=1; }
                 int cls=(((f*5+coef)*2+tight)*2+inv)*2+(n2a[1].bwe>0);
                 if(mc_set_add(classes,mc_mix(0x1C18,cls))) mc_sample("fs=%d prev_idx=[%s] cur_idx=[%s] interp_Q2=%d -> NLSF0=[%s]%s -> a0_Q12=[%s] bwe=%d; a1_Q12=[%s]",fs,vec8(pidx,ord+1),vec8(cidx,ord+1),coef,vec16(n2a[1].nlsf,ord),tight?" (a gap below deltaMin: interpolated vector is not re-stabilised)":"",vec16(dc.PredCoef_Q12[0],ord),n2a[1].bwe,vec16(dc.PredCoef_Q12[1],ord)); }
            } else if(memcmp(dc.PredCoef_Q12[0],dc.PredCoef_Q12[1],sizeof(opus_int16)*ord)) mc_fail("decode_parameters:nointerp_copy","factor 4 but first-half filter differs | %s",cx);
         } else { /* after a loss the int16 coefficients are bandwidth-expanded once more: still stable and bounded */
            check_filter("decode_parameters:cur_afterloss",dc.PredCoef_Q12[1],ord,NULL,cx); check_filter("decode_parameters:interp_afterloss",dc.PredCoef_Q12[0],ord,NULL,cx); l_stab+=2;
         }
         check_gains_pitch("decode_parameters",&d,&dc,cx);
      }
   }
   flush();
}

/* ------------------------------------------------------------------ encdec ------------------------------------------------------------------ */
static const int EOFF[4]={0,23,160,0}, SURV[3]={2,6,16}; static int NPREV;
static void item_encdec(long it,void *ctx){
   int f=(int)(it/(32*P)), ta=(int)(it%(32*P)), fs=FS[f], cb=fs==16, ord=CB[cb]->order, e,pv,coef,st,sv,k; (void)ctx;
   opus_int8 tidx[17],pidx[17]; opus_int16 base[16],prevn[16],tgt[16]; static silk_encoder_state enc; silk_decoder_state d; silk_decoder_control dc; char cx[500];
   mc_case("encdec","fs=%d target=(i0=%d,pattern=%d)",fs,ta/P,ta%P);
   mk_pattern(cb,ta/P,ta%P,tidx); { opus_int8 t[17]; memcpy(t,tidx,17); silk_NLSF_decode(base,t,CB[cb]); }
   for(e=0;e<4;e++) for(pv=0;pv<NPREV;pv++){
      int pa=(pv*37+ta*11)%(32*P);
      mk_pattern(cb,pa/P,pa%P,pidx); { opus_int8 t[17]; memcpy(t,pidx,17); silk_NLSF_decode(prevn,t,CB[cb]); }
      for(coef=0;coef<=4;coef++) for(st=0;st<3;st++) for(sv=0;sv<3;sv++){
         opus_int16 encA[2][MAX_LPC_ORDER]; opus_int16 q[16];
         for(k=0;k<ord;k++){ int v=base[k]+((k&1)?EOFF[e]:-EOFF[e]); tgt[k]=(opus_int16)(v<0?0:v>32767?32767:v); }
         if(e==3){ /* what the encoder's own analysis chain would deliver for this (gain-limited) filter: silk_A2NLSF of silk_NLSF2A(base) */
            opus_int16 af[MAX_LPC_ORDER]; opus_int32 a16[MAX_LPC_ORDER]; silk_NLSF2A(af,base,ord,arch); for(k=0;k<ord;k++) a16[k]=(opus_int32)af[k]*16; silk_A2NLSF(tgt,a16,ord); }
         /* the encoder's domain (G5a): silk_A2NLSF hands silk_process_NLSFs a non-decreasing vector in [0,32767]; sort the perturbed target */
         { int a,b; for(a=1;a<ord;a++){ opus_int16 t=tgt[a]; for(b=a-1;b>=0&&tgt[b]>t;b--) tgt[b+1]=tgt[b]; tgt[b+1]=t; } }
         memset(&enc,0,sizeof enc); enc.speech_activity_Q8=(st*128); enc.nb_subfr=4; enc.useInterpolatedNLSFs=1; enc.indices.NLSFInterpCoef_Q2=(opus_int8)coef;
         enc.predictLPCOrder=ord; enc.psNLSF_CB=CB[cb]; enc.NLSF_MSVQ_Survivors=SURV[sv]; enc.indices.signalType=(opus_int8)st; enc.arch=arch; enc.fs_kHz=fs;
         memcpy(q,tgt,sizeof q);
         silk_process_NLSFs(&enc,encA,q,prevn); l_eval++;
         snprintf(cx,sizeof cx,"fs=%d target=[%s] prev=[%s] interp_Q2=%d signalType=%d survivors=%d -> idx=[%s]",fs,vec16(tgt,ord),vec16(prevn,ord),coef,st,SURV[sv],vec8(enc.indices.NLSFIndices,ord+1));
         { int i0=enc.indices.NLSFIndices[0],okc=i0>=0&&i0<CB[cb]->nVectors&&((carri[cb][i0]>>(st>>1))&1);
           for(k=0;k<ord&&okc;k++){ int v=enc.indices.NLSFIndices[1+k]; if(v<-10||v>10||!codable(cb,i0,k,v)) okc=0; }
           if(!okc){ mc_fail("encdec:index_not_codable","encoder produced an index vector no bitstream can carry | %s",cx); continue; } }
         memcpy(&d,&decT[f],sizeof d); memset(&dc,0,sizeof dc); memcpy(d.prevNLSF_Q15,prevn,sizeof(opus_int16)*ord);
         memcpy(d.indices.NLSFIndices,enc.indices.NLSFIndices,ord+1); d.indices.NLSFInterpCoef_Q2=(opus_int8)coef; d.indices.signalType=(opus_int8)st;
         d.indices.GainsIndices[0]=20; d.indices.GainsIndices[1]=d.indices.GainsIndices[2]=d.indices.GainsIndices[3]=4; d.indices.lagIndex=40; d.indices.contourIndex=0;
         n2a_n=0; silk_decode_parameters(&d,&dc,CODE_INDEPENDENTLY); l_stab++;
         if(memcmp(d.prevNLSF_Q15,q,sizeof(opus_int16)*ord)) mc_fail("encdec:nlsf_mismatch","encoder's quantised NLSFs [%s] != decoder's [%s] | %s",vec16(q,ord),vec16(d.prevNLSF_Q15,ord),cx);
         else if(memcmp(dc.PredCoef_Q12[1],encA[1],sizeof(opus_int16)*ord)) mc_fail("encdec:filter1_mismatch","second-half filter enc [%s] dec [%s] | %s",vec16(encA[1],ord),vec16(dc.PredCoef_Q12[1],ord),cx);
         else if(memcmp(dc.PredCoef_Q12[0],encA[0],sizeof(opus_int16)*ord)) mc_fail("encdec:filter0_mismatch","first-half filter enc [%s] dec [%s] | %s",vec16(encA[0],ord),vec16(dc.PredCoef_Q12[0],ord),cx);
         { int cl=nlsf_clause(q,CB[cb]); if(cl){ char sig[64]; snprintf(sig,sizeof sig,"encdec:nlsf_%s",NLSF_CLAUSE[cl]); mc_fail(sig,"quantised NLSFs [%s] | %s",vec16(q,ord),cx); } }
         check_filter("encdec:filter1",encA[1],ord,NULL,cx); if(coef<4) check_filter("encdec:filter0",encA[0],ord,NULL,cx);
         { uint64_t h=mc_hash(enc.indices.NLSFIndices,ord+1,0xE0+cb); int cls=(f*5+coef)*3+st; mc_set_add(nlsfset,h); { if(mc_set_add(classes,mc_mix(0x2C18,cls)))
              mc_sample("fs=%d target=[%s] prev=[%s] interp_Q2=%d signalType=%d survivors=%d -> idx=[%s] quantised NLSF=[%s]; decoder: same NLSFs, a0=[%s] a1=[%s] identical to encoder",fs,vec16(tgt,ord),vec16(prevn,ord),coef,st,SURV[sv],vec8(enc.indices.NLSFIndices,ord+1),vec16(q,ord),vec16(dc.PredCoef_Q12[0],ord),vec16(dc.PredCoef_Q12[1],ord)); } }
      }
   }
   flush();
}

int main(int argc,char **argv){
   const char *mode; long nitems; int f;
   mc_init(argc,argv,"C18","nlsf");
   mode=mc_arg_s("--mode","nlsf"); MC.part=mode;
   c18_init_cb(); arch=opus_select_arch();
   if(!ref_selftest()){ fprintf(stderr,"C18: reference step-down self-test failed (sign convention?)\n"); return 2; }
   mk_carriable(); { int i; for(i=0;i<16;i++) GB[i]=pow(10.0,0.3*i); }
   Dfull=(int)mc_arg("--dfull",MC.tier?3:2); Dsub=(int)mc_arg("--dsub",MC.tier?4:3); Kx16=(int)mc_arg("--kx16",MC.tier?6:4); P=(int)mc_arg("--patterns",MC.tier?32:8); NPREV=(int)mc_arg("--nprev",MC.tier?8:4);
   track_nlsf=(int)mc_arg("--track",MC.tier?0:1);
   if(Dsub<Dfull) Dsub=Dfull;
   c_eval=mc_counter("evaluations"); c_states=mc_counter("states"); c_trans=mc_counter("transitions"); c_stab=mc_counter("filters_checked"); c_bwe=mc_counter("filters_needing_stabilising_bwe");
   c_fitc=mc_counter("filters_needing_LPC_fit_chirp"); c_worstk_e6=mc_counter("worst_abs_k_x1e6"); c_worstg_mdB=mc_counter("worst_pred_gain_milli_dB"); c_skip=mc_counter("uncodable_values_skipped");
   classes=mc_set_new(20); nlsfset=mc_set_new(!strcmp(mode,"nlsf")?(track_nlsf?26:4):24); seen_cls=calloc(1,2*32*17*2*16*4+16);
   for(f=0;f<3;f++) setup_dec(&decT[f],FS[f],4);
   mc_info("arch=%d uncodable (cb,i0,pos,value) combinations=%ld GAIN_LIMIT=%.0f",arch,n_uncodable,GAIN_LIMIT);
   if(!strcmp(mode,"nlsf")){
      nitems=32L*items_per(0)+32L*items_per(1);
      mc_info("strata: full values up to %d positions, 6-value subset up to %d positions, order-16 ternary extremes up to %d non-zeros + all 2^16 sign vectors, order-10 all 3^10",Dfull,Dsub,Kx16);
      mc_par(nitems,item_nlsf,NULL);
      { mc_ctr *dn=mc_counter("distinct_nontrivial"); *dn=mc_set_count(classes); if(track_nlsf){ mc_ctr *dv=mc_counter("distinct_decoded_nlsf_vectors"); *dv=mc_set_count(nlsfset); } }
   } else if(!strcmp(mode,"interp")){
      mc_par(3L*32*P,item_interp,NULL);
      { mc_ctr *dn=mc_counter("distinct_nontrivial"); *dn=mc_set_count(classes); }
   } else if(!strcmp(mode,"encdec")){
      mc_par(3L*32*P,item_encdec,NULL);
      { mc_ctr *dn=mc_counter("distinct_nontrivial"); mc_ctr *dv=mc_counter("distinct_encoder_index_vectors"); *dn=mc_set_count(classes); *dv=mc_set_count(nlsfset); }
   } else { fprintf(stderr,"unknown mode %s\n",mode); return 2; }
   return mc_finish();
}
