/* C18 — part "sync": "Quantising parameters on the encoder side and dequantising them gives the same values the decoder will
 * reconstruct", checked on the inter-frame references the anchors name (silk_decoder_state.{LastGainIndex, prevNLSF_Q15, ec_prevLagIndex,
 * ec_prevSignalType}) of the REAL encoder and the REAL decoder run in lock-step.
 *
 * Conditional coding makes every dequantised value a function of (indices in the bitstream, reference carried from the previous frame):
 * gains = f(GainsIndices, LastGainIndex), NLSFs = g(NLSFIndices, prevNLSF for the interpolated half), lag = h(lagIndex, ec_prevLagIndex,
 * ec_prevSignalType).  The indices travel in the packet; the references do not.  So encoder-side and decoder-side dequantisation agree on every
 * frame iff the two sides hold the same references before every frame — in particular across everything that re-initialises them on one side
 * (internal sampling-rate switches, the first frame, resets).  The function-level parts (gains / nlsf / pitch) cannot see a reference that one
 * side forgets to reset.
 *
 * Enumeration (exhaustive over the listed grid, nothing sampled): API rate {16, 48} kHz x channels {1, 2 (channel 0 = mid is compared)} x
 * frame {10, 20, 40, 60} ms x bitrate {10, 24 kb/s per channel} x complexity {0, 10} x bandwidth plan (every ordered pair A->B of {NB, MB, WB},
 * A held until the plan's change point, plus the three constant plans) x level plan.  Pass 1 of every (configuration, bandwidth plan) runs a loud
 * voiced signal and records the packets at which the decoder's internal rate changes; pass 2 re-runs it with every level plan: a step between
 * loud and -42 dB / -66 dB / digital silence (and back) placed at each recorded switch packet shifted by {-2,-1,0,+1} packets and {0, 1/4, 3/4}
 * of a frame — the gain predictor then sits far from the level of the first frame after the switch.
 * Oracle after EVERY packet (SILK-only TOC, payload > 1 byte): fs_kHz, nb_subfr, LastGainIndex, prevNLSF_Q15[0..order), ec_prevLagIndex,
 * ec_prevSignalType (ec_prevLagIndex only after a voiced frame: it is dead otherwise) of the encoder's channel-0 state equal the decoder's; decoder returns the frame size and the encoder's final range.
 */
#include <stdio.h>
#include "c18_common.h"
#include "main_FLP.h"
#include "opus.h"

#define MODE_SILK_ONLY_ 1000
#define OPUS_SET_FORCE_MODE_REQUEST_ 11002
static mc_ctr *c_eval,*c_states,*c_trans,*c_dn,*c_switch,*c_runs,*c_pk,*c_nosw,*c_cond;
static mc_set *obs,*sts;
static const int FSA[2]={16000,48000}, DURX[4]={10,20,40,60}, BR[2]={10000,24000}, CX[2]={0,10};
static const int BW[3]={OPUS_BANDWIDTH_NARROWBAND,OPUS_BANDWIDTH_MEDIUMBAND,OPUS_BANDWIDTH_WIDEBAND};
static const char *const BWN[3]={"NB","MB","WB"};
#define NPLAN 12       /* 9 ordered pairs incl. constant ones; change point early (up-switches are quick) or late (down-switches need the 2.56 s transition) */
#define MAXPK 420

typedef struct { int fs,ch,dur,br,cx,a,b; } cfg_t;
static void cfg_of(long it,cfg_t *c){ c->b=(int)(it%3); it/=3; c->a=(int)(it%3); it/=3; c->cx=CX[it%2]; it/=2; c->br=BR[it%2]; it/=2; c->dur=DURX[it%4]; it/=4; c->ch=1+(int)(it%2); it/=2; c->fs=FSA[it%2]; }
#define NITEMS (3L*3*2*2*4*2*2)

/* level plan: amplitude as a function of the absolute sample index */
typedef struct { long t0,t1; double g0,g1,g2; } lplan;      /* g0 before t0, g1 in [t0,t1), g2 after */
static double level_at(const lplan *l,long t){ return t<l->t0?l->g0:t<l->t1?l->g1:l->g2; }
static void gen(short *pcm,int n,int ch,long t,int fs,const lplan *l){
   int k,h,c; for(k=0;k<n;k++,t++){ double x=0,f0=118.0+14.0*sin(2*M_PI*t/(0.9*fs)); for(h=1;h<=14&&h*f0<3400;h++) x+=sin(2*M_PI*h*f0*t/fs+0.37*h)/h;
      x*=level_at(l,t); for(c=0;c<ch;c++) pcm[k*ch+c]=(short)lrint(9000.0*x*(c?0.8:1.0)); } }

static int run(const cfg_t *c,const lplan *l,int npk,int chg,int *sw,int *nsw,const char *what){
   int err=0,i,n=c->fs/1000*c->dur,k,prevfs=0,ok=1; long t=0; short *pcm=malloc(sizeof(short)*n*c->ch); float *out=malloc(sizeof(float)*n*c->ch); unsigned char pkt[1500];
   OpusEncoder *e=opus_encoder_create(c->fs,c->ch,OPUS_APPLICATION_VOIP,&err); OpusDecoder *d=opus_decoder_create(c->fs,c->ch,&err);
   silk_encoder_state_FLP *se; silk_decoder_state *sd;
   if(!e||!d){ fprintf(stderr,"c18 sync: create failed\n"); exit(2); }
   se=(silk_encoder_state_FLP*)((char*)e+((int*)e)[1]); sd=(silk_decoder_state*)((char*)d+((int*)d)[1]);
   opus_encoder_ctl(e,OPUS_SET_FORCE_MODE_REQUEST_,MODE_SILK_ONLY_); opus_encoder_ctl(e,OPUS_SET_BITRATE(c->br*c->ch)); opus_encoder_ctl(e,OPUS_SET_COMPLEXITY(c->cx));
   opus_encoder_ctl(e,OPUS_SET_BANDWIDTH(BW[c->a])); if(nsw) *nsw=0;
   MC_INC(c_runs);
   for(i=0;i<npk;i++){ int len,r; opus_uint32 re=0,rd=0;
      if(i==chg) opus_encoder_ctl(e,OPUS_SET_BANDWIDTH(BW[c->b]));
      gen(pcm,n,c->ch,t,c->fs,l); t+=n;
      mc_case("encode_decode","%s packet %d",what,i);
      len=opus_encode(e,pcm,n,pkt,sizeof pkt); MC_INC(c_trans);
      if(len<=0){ mc_fail("sync:encode_failed","%s packet %d: opus_encode returned %d",what,i,len); ok=0; break; }
      r=opus_decode_float(d,pkt,len,out,n,0); MC_INC(c_trans); MC_INC(c_pk);
      opus_encoder_ctl(e,OPUS_GET_FINAL_RANGE(&re)); opus_decoder_ctl(d,OPUS_GET_FINAL_RANGE(&rd));
      if(r!=n||re!=rd){ mc_fail("sync:decode_count_or_range","%s packet %d (%d bytes): decoder returned %d of %d, final range enc %08x dec %08x",what,i,len,r,n,re,rd); ok=0; break; }
      if((pkt[0]&0x80)||len<=2) continue;                 /* not SILK-only (cannot happen with the forced mode), or nothing coded */
      MC_INC(c_eval);
      if(prevfs&&sd->fs_kHz!=prevfs){ MC_INC(c_switch); if(sw&&nsw&&*nsw<8) sw[(*nsw)++]=i; }
      prevfs=sd->fs_kHz;
      if(sd->indices.signalType==TYPE_VOICED) MC_INC(c_cond);
#define NE(f,ev,dv) do{ if((ev)!=(dv)){ mc_fail("sync:reference_differs:" f,"%s packet %d (%d bytes, TOC %02x, internal %d kHz, previous packet %d kHz): encoder holds %s=%d, decoder %d -> the next conditionally coded frame dequantises differently on the two sides",what,i,len,pkt[0],sd->fs_kHz,prevfs,f,(int)(ev),(int)(dv)); ok=0; goto out; } }while(0)
      NE("fs_kHz",se->sCmn.fs_kHz,sd->fs_kHz); NE("nb_subfr",se->sCmn.nb_subfr,sd->nb_subfr);
      NE("LastGainIndex",se->sShape.LastGainIndex,sd->LastGainIndex);
      NE("ec_prevSignalType",se->sCmn.ec_prevSignalType,sd->ec_prevSignalType); if(sd->ec_prevSignalType==TYPE_VOICED) NE("ec_prevLagIndex",se->sCmn.ec_prevLagIndex,sd->ec_prevLagIndex);   /* read only for a delta-coded lag, i.e. after a voiced frame */
      for(k=0;k<sd->LPC_order;k++) NE("prevNLSF_Q15",se->sCmn.prev_NLSFq_Q15[k],sd->prevNLSF_Q15[k]);
      { uint64_t h=mc_mix(mc_mix(sd->fs_kHz,sd->LastGainIndex),mc_mix(sd->indices.signalType,sd->ec_prevLagIndex)); if(mc_set_add(sts,mc_mix(h,mc_hash(sd->prevNLSF_Q15,sizeof(opus_int16)*sd->LPC_order,3)))) MC_INC(c_states);
        if(mc_set_add(obs,mc_mix(mc_mix(sd->fs_kHz,c->dur),mc_mix(sd->LastGainIndex>>2,sd->indices.signalType)))) MC_INC(c_dn); }
   }
out:
   opus_encoder_destroy(e); opus_decoder_destroy(d); free(pcm); free(out); return ok;
}

static void item(long it,void *u){
   cfg_t c; char what[200],w2[320]; int sw[8],nsw=0,npk,chg,s,dp,fr,lv; lplan l; (void)u;
   cfg_of(it,&c);
   if(c.dur>20 && MC.tier==0 && c.cx==10 && c.br==24000) return;                     /* quick: the long frames at one (complexity, rate) corner only */
   chg = c.a>c.b ? 8 : 8;                                                          /* change request after 8 packets */
   npk = c.a>c.b ? (int)((c.a-c.b)*2900L/c.dur)+chg+12 : c.a==c.b ? 30 : chg+24;   /* a down-switch step needs the 2.56 s low-pass transition */
   if(npk>MAXPK) npk=MAXPK;
   snprintf(what,sizeof what,"Fs=%d ch=%d %d ms %d b/s/ch complexity %d bandwidth %s->%s at packet %d",c.fs,c.ch,c.dur,c.br,c.cx,BWN[c.a],BWN[c.b],chg);
   l.t0=l.t1=1L<<40; l.g0=l.g1=l.g2=1.0;
   snprintf(w2,sizeof w2,"%s; steady loud voiced signal",what);
   if(!run(&c,&l,npk,chg,sw,&nsw,w2)) return;
   if(c.a!=c.b && nsw==0){ MC_INC(c_nosw); return; }
   if(c.a==c.b){ sw[0]=10; nsw=1; }                                                    /* constant plan: steps around an arbitrary packet */
   for(s=0;s<nsw;s++) for(dp=-2;dp<=1;dp++) for(fr=0;fr<3;fr++) for(lv=0;lv<(MC.tier?6:4);lv++){
      static const double G[6][3]={{1,0.008,0.008},{1,0.0005,0.0005},{0.008,1,1},{1,0,1},{1,0.008,1},{0.0005,1,0.008}}; long n=c.fs/1000*c.dur;
      if(MC.tier==0 && fr==1) continue;
      l.g0=G[lv][0]; l.g1=G[lv][1]; l.g2=G[lv][2]; l.t0=(long)(sw[s]+dp)*n+(fr==0?0:fr==1?n/4:3*n/4); l.t1=l.t0+ (lv>=3? 2*n : (1L<<40));
      if(l.t0<0) continue;
      snprintf(w2,sizeof w2,"%s; level x%g until sample %ld (packet %d%+d, +%s frame), then x%g%s x%g",what,l.g0,l.t0,sw[s],dp,fr==0?"0":fr==1?"1/4":"3/4",l.g1,lv>=3?" for two frames, then":"",l.g2);
      run(&c,&l,sw[s]+6<npk?sw[s]+6:npk,chg,NULL,NULL,w2);
   }
}

int main(int argc,char **argv){
   mc_init(argc,argv,"C18","sync");
   c_eval=mc_counter("evaluations"); c_states=mc_counter("states"); c_trans=mc_counter("transitions"); c_dn=mc_counter("distinct_nontrivial");
   c_switch=mc_counter("internal_rate_switches_observed"); c_runs=mc_counter("traces_validated_against_impl"); c_pk=mc_counter("packets"); c_nosw=mc_counter("bandwidth_plans_without_a_switch"); c_cond=mc_counter("voiced_packets");
   obs=mc_set_new(16); sts=mc_set_new(22);
   { /* layout self-check: the offsets must lead to SILK states whose rates match what was created */
     int err=0; OpusEncoder *e=opus_encoder_create(16000,1,OPUS_APPLICATION_VOIP,&err); OpusDecoder *d=opus_decoder_create(16000,1,&err); short z[320]={0}; unsigned char p[400]; float o[320]; int n;
     silk_encoder_state_FLP *se=(silk_encoder_state_FLP*)((char*)e+((int*)e)[1]); silk_decoder_state *sd=(silk_decoder_state*)((char*)d+((int*)d)[1]);
     z[5]=3000; opus_encoder_ctl(e,OPUS_SET_FORCE_MODE_REQUEST_,MODE_SILK_ONLY_); n=opus_encode(e,z,320,p,sizeof p); if(n>0) opus_decode_float(d,p,n,o,320,0);
     if(n<=0||se->sCmn.fs_kHz!=16||sd->fs_kHz!=16||sd->LPC_order!=16||se->sCmn.predictLPCOrder!=16||se->sShape.LastGainIndex<0||se->sShape.LastGainIndex>63){ fprintf(stderr,"c18 sync: struct layout self-check failed\n"); return 2; }
     opus_encoder_destroy(e); opus_decoder_destroy(d); }
   mc_par(NITEMS,item,NULL);
   return mc_finish();
}
