#!/bin/bash
# Offline setup: builds the frozen reference codec and pre-builds the most used libopus variants
# from /repo's current tree. Every ./check run rebuilds incrementally anyway; this only warms caches.
set -e
cd "$(dirname "$0")"
mkdir -p build out evidence
python3 - <<'PY'
import importlib.util, importlib.machinery, sys, os
ldr = importlib.machinery.SourceFileLoader("check", os.path.join(os.getcwd(), "check"))
spec = importlib.util.spec_from_loader("check", ldr); m = importlib.util.module_from_spec(spec); ldr.exec_module(m)
m.build_ref()
for v in ("prod", "prod-asan", "fixed"):
    m.build_variant(v)
print("setup ok")
PY
