#!/bin/bash
# usage: seed_prep.sh <ID> <tag>   — creates worktree /tmp/seed-<ID>-<tag> at /repo HEAD and the prompt file /tmp/seedprompt-<ID>-<tag>.txt
ID=$1; TAG=$2; EXTRA="${3:-}"; WT=/tmp/seed-$ID-$TAG
git -C /repo worktree add $WT HEAD >/dev/null 2>&1 || { echo "worktree failed"; exit 1; }
python3 - "$ID" "$WT" "$TAG" "$EXTRA" <<'PY'
import json,sys
pid,wt,tag,extra=sys.argv[1:5]
props={json.loads(l)['id']:json.loads(l) for l in open('/verif/properties.jsonl')}
p=props[pid]; t=open('/verif/tools/seed_prompt.txt').read()
t=t.replace('{WT}',wt).replace('{ID}',pid).replace('{TITLE}',p['title']).replace('{STATEMENT}',p['statement']).replace('{QUANT}',p['quantifier']['text'])
if extra: t+="\n\nIMPORTANT: a previous engineer already produced the following change for this property; yours must use a DIFFERENT mechanism at a DIFFERENT code site (ideally a different source file or API entry point, and a different clause of the property): "+extra+"\n"
open('/tmp/seedprompt-%s-%s.txt'%(pid,tag),'w').write(t)
PY
echo "$WT ready"
