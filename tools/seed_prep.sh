#!/bin/bash
# usage: seed_prep.sh <ID> <tag>   — creates worktree /tmp/seed-<ID>-<tag> at /repo HEAD and the prompt file /tmp/seedprompt-<ID>-<tag>.txt
ID=$1; TAG=$2; WT=/tmp/seed-$ID-$TAG
git -C /repo worktree add $WT HEAD >/dev/null 2>&1 || { echo "worktree failed"; exit 1; }
python3 - "$ID" "$WT" "$TAG" <<'PY'
import json,sys
pid,wt,tag=sys.argv[1:4]
props={json.loads(l)['id']:json.loads(l) for l in open('/verif/properties.jsonl')}
p=props[pid]; t=open('/verif/tools/seed_prompt.txt').read()
t=t.replace('{WT}',wt).replace('{ID}',pid).replace('{TITLE}',p['title']).replace('{STATEMENT}',p['statement']).replace('{QUANT}',p['quantifier']['text'])
open('/tmp/seedprompt-%s-%s.txt'%(pid,tag),'w').write(t)
PY
echo "$WT ready"
