#!/bin/bash
# usage: run_all.sh <tier> [ids...] — runs ./check for every claimed property sequentially, one summary line each into out/runall-<tier>.log
tier=$1; shift; ids="$@"; [ -z "$ids" ] && ids=$(cat /verif/tools/ready.txt)
cd /verif; log=out/runall-$tier.log; : > $log
for i in $ids; do
  s=$(date +%s); ./check $i --tier $tier > out/runall-$tier-$i.out 2>&1; rc=$?; e=$(date +%s)
  echo "$i rc=$rc $((e-s))s $(grep -E "^C[0-9]+ tier=" out/runall-$tier-$i.out | tail -n 1 | cut -c1-220)" >> $log
  grep -E "^VIOLATION|^MACHINERY" out/runall-$tier-$i.out | cut -c1-300 >> $log
done
echo ALLDONE >> $log
