#!/bin/bash
# usage: seed_recheck.sh <ID> <tag> "<how it was widened>" [check args...] — re-runs the (strengthened) check on a scratch copy of /repo carrying seeded/<ID>-<tag>/patch.diff
ID=$1; TAG=$2; HOW=$3; shift 3; S=/tmp/opus-recheck-$ID-$TAG
rm -rf $S; cp -a /repo $S; rm -rf $S/_build
git -C $S apply /verif/seeded/$ID-$TAG/patch.diff || { echo "patch does not apply"; exit 2; }
cd /verif; VERIF_REPO=$S ./check $ID --tier quick "$@" > out/recheck-$ID-$TAG.out 2>&1; rc=$?
python3 - "$ID" "$TAG" "$rc" "$HOW" "$*" <<'PY'
import json,sys,re
pid,tag,rc,how,args=sys.argv[1:6]
log=open('/verif/out/recheck-%s-%s.out'%(pid,tag)).read()
sigs=sorted(set(re.findall(r"violation ([^\s]+?):? ",log)))[:6]
p='/verif/seeded/%s-%s/meta.json'%(pid,tag); m=json.load(open(p)); lv=m.setdefault('lead_verification',{})
if rc=='1':
    lv['after_strengthening']={"cmd":"scratch copy of /repo with seeded/%s-%s/patch.diff: VERIF_REPO=... ./check %s --tier quick %s"%(pid,tag,pid,args),"exit":1,"violation_signatures":sigs,"how":how}
    lv['note']="first missed, caught after widening: "+how
json.dump(m,open(p,'w'),indent=1)
print(pid,tag,"recheck exit",rc,sigs[:3])
PY
rm -rf $S /verif/build/alt-$(python3 -c "import hashlib;print(hashlib.sha1(b'$S').hexdigest()[:10])")
