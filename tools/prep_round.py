import json,glob,sys,subprocess
tag=sys.argv[1]; ids=sys.argv[2:]
for pid in ids:
    prev=[]
    for d in sorted(glob.glob('/verif/seeded/%s-*'%pid)):
        try: m=json.load(open(d+'/meta.json'))
        except Exception: continue
        prev.append("(%s) %s"%(d.split('-')[-1], m.get('what_changed','')[:260].replace('\n',' ')))
    extra=" ;; ".join(prev)
    print(subprocess.run(['/verif/tools/seed_prep.sh',pid,tag,extra],capture_output=True,text=True).stdout.strip())
