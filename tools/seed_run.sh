#!/bin/bash
# usage: seed_run.sh <ID> <tag> [check args...]  — lead's confirmation of an independently seeded change + run of the /verif check on it
ID=$1; TAG=$2; shift 2; WT=/tmp/seed-$ID-$TAG; OUT=/verif/seeded/$ID-$TAG
/verif/tools/seed_verify.sh $ID $WT $TAG
INC="-I$WT/include -I$WT/celt -I$WT/silk -I$WT/src -I$WT -I$WT/_b"
{
 echo "--- demo (rebuilt by the lead from seed_out/demo.c)"
 if [ -f $WT/seed_out/demo.c ]; then
  cc -O1 -pthread -DHAVE_CONFIG_H $INC $WT/seed_out/demo.c $WT/_b/libopus.a -lm -o /tmp/demo-$ID-$TAG-c 2>&1 | tail -3
  cc -O1 -pthread -DHAVE_CONFIG_H $INC $WT/seed_out/demo.c $WT/_b0/libopus.a -lm -o /tmp/demo-$ID-$TAG-o 2>&1 | tail -3
  timeout 1800 /tmp/demo-$ID-$TAG-c > /tmp/demo-$ID-$TAG-c.out 2>&1; echo "demo with change: exit $? : $(tail -1 /tmp/demo-$ID-$TAG-c.out)"
  timeout 1800 /tmp/demo-$ID-$TAG-o > /tmp/demo-$ID-$TAG-o.out 2>&1; echo "demo without change: exit $? : $(tail -1 /tmp/demo-$ID-$TAG-o.out)"
  rm -f /tmp/demo-$ID-$TAG-*
 else echo "no demo.c (see seed_out)"; fi
 echo "--- /verif check on the changed tree: VERIF_REPO=$WT ./check $ID --tier quick $*"
 cd /verif && VERIF_REPO=$WT ./check $ID --tier quick "$@" 2>&1 | grep -E "VIOLATION|violation |KNOWN|MACHINERY|tier=" | cut -c1-600 | head -20
 echo "check exit: ${PIPESTATUS[0]}"
} >> $OUT/verify.log 2>&1
rm -rf /verif/build/alt-$(python3 -c "import hashlib;print(hashlib.sha1(b'$WT').hexdigest()[:10])")
echo "seed_run $ID-$TAG done"
