#!/bin/bash
# usage: seed_verify.sh <ID> <worktree> <tag>  — lead's own confirmation of an independently seeded change:
#  rebuilds the changed tree, runs the pinned test suite on it, builds+runs the demo against changed and unchanged builds,
#  and stores patch/demo/meta under /verif/seeded/<ID>-<tag>/ . The /verif check is run separately (VERIF_REPO=<worktree>).
set -u
ID=$1; WT=$2; TAG=$3; OUT=/verif/seeded/$ID-$TAG; mkdir -p $OUT
cp $WT/seed_out/patch.diff $OUT/patch.diff
for f in $WT/seed_out/*; do case "$f" in *.c|*.sh|*.h|*.json|*.py|*.txt) cp "$f" $OUT/;; esac; done
git -C $WT diff --stat | tail -1 > $OUT/verify.log
( cmake --build $WT/_b -j8 >/dev/null 2>&1; ctest --test-dir $WT/_b -j8 --timeout 1800 2>&1 | tail -4 ) >> $OUT/verify.log 2>&1
echo "suite done" >> $OUT/verify.log
