#!/bin/bash
# usage: seedq.sh tag id...  — sequential verification of finished seeds
TAG=$1; shift
for ID in "$@"; do
  /verif/tools/seed_run.sh $ID $TAG > /tmp/seedrun-$ID-$TAG.log 2>&1
  python3 /verif/tools/seed_finalize.py $ID $TAG >> /tmp/seedrun-$ID-$TAG.log 2>&1
  tail -1 /tmp/seedrun-$ID-$TAG.log >> /tmp/seedq-results.txt
done
