#!/usr/bin/env python3
"""seed_finalize.py <ID> <tag> [note] — merges the lead's own verification (seeded/<ID>-<tag>/verify.log written by seed_run.sh) into meta.json,
removes the scratch worktree. Prints DETECTED / MISSED."""
import json, sys, os, re, subprocess
pid, tag = sys.argv[1], sys.argv[2]
note = sys.argv[3] if len(sys.argv) > 3 else ""
d = "/verif/seeded/%s-%s" % (pid, tag)
log = open(os.path.join(d, "verify.log")).read()
mp = os.path.join(d, "meta.json")
try: m = json.load(open(mp))
except Exception: m = {}
m["property"] = pid
suite = re.findall(r"(\d+% tests passed, \d+ tests failed out of \d+)", log)
demo = re.findall(r"(demo with(?:out)? change: exit \d+ : .*)", log)
viol = re.findall(r"violation ([^:\s]+(?::[^\s:]+)*):? ", log)
chk = re.findall(r"check exit: (\d+)", log)
summ = re.findall(r"(C\d\d tier=quick .*)", log)
m["lead_verification"] = {"suite_on_changed_tree": suite[-1] if suite else "NOT RUN", "demo": demo, "verif_check_cmd": "VERIF_REPO=/tmp/seed-%s-%s ./check %s --tier quick" % (pid, tag, pid),
   "verif_check_exit": int(chk[-1]) if chk else None, "violation_signatures": sorted(set(viol))[:12], "summary": summ[-1] if summ else "", "note": note}
json.dump(m, open(mp, "w"), indent=1)
det = bool(chk) and chk[-1] == "1"
print(pid, tag, "DETECTED" if det else "MISSED", sorted(set(viol))[:4], suite[-1:] , [x[:60] for x in demo])
wt = "/tmp/seed-%s-%s" % (pid, tag)
if "--keep" not in sys.argv and os.path.isdir(wt):
    subprocess.call(["git", "-C", "/repo", "worktree", "remove", "--force", wt])
    subprocess.call(["rm", "-f", "/tmp/seedprompt-%s-%s.txt" % (pid, tag)])
