#!/usr/bin/env python3
"""seed_finalize.py <ID> <tag> <check verdict text> [demo verdict text] — merges the lead's own verification into seeded/<ID>-<tag>/meta.json"""
import json, sys, os
pid, tag, verdict = sys.argv[1], sys.argv[2], sys.argv[3]
d = "/verif/seeded/%s-%s" % (pid, tag)
mp = os.path.join(d, "meta.json")
try: m = json.load(open(mp))
except Exception: m = {"property": pid}
m["property"] = pid
m["lead_verification"] = {
  "suite_on_changed_tree": open(os.path.join(d, "verify.log")).read().strip().splitlines()[-4:] if os.path.exists(os.path.join(d, "verify.log")) else "not run",
  "demo": sys.argv[4] if len(sys.argv) > 4 else "",
  "verif_check": verdict,
}
json.dump(m, open(mp, "w"), indent=1)
print("ok", mp)
