#!/usr/bin/env python3
"""Writes /verif/seeded/RESULTS.md from seeded/*/meta.json (independently seeded changes and what the checks said about them)."""
import json, glob, os
rows = []
for d in sorted(glob.glob('/verif/seeded/C*-*')):
    mp = os.path.join(d, 'meta.json')
    if not os.path.exists(mp): continue
    m = json.load(open(mp)); lv = m.get('lead_verification', {})
    name = os.path.basename(d)
    what = (m.get('what_changed') or m.get('what') or '').replace('\n', ' ').replace('|', '/')
    needs = (m.get('needs_to_manifest') or '').replace('\n', ' ').replace('|', '/')
    det = lv.get('verif_check_exit') == 1
    verdict = 'detected' if det else 'MISSED at first'
    if det and lv.get('pre_run_widening'): verdict = 'detected, but only because the check was widened on reading the seeder\'s report before it was first run on the change (counts as a miss of the earlier check)'
    sigs = ', '.join('`%s`' % s for s in (lv.get('violation_signatures') or [])[:3])
    if not det and lv.get('after_strengthening'):
        a = lv['after_strengthening']
        verdict = 'missed at first; detected after widening'
        sigs = ', '.join('`%s`' % s for s in (a.get('violation_signatures') or [])[:3]) + ' — ' + a.get('how', '')
    elif not det:
        verdict = 'MISSED (open)'
    suite = lv.get('suite_on_changed_tree', '')
    rows.append((name, what[:420], needs[:300], verdict, sigs.replace('|', '/'), suite if isinstance(suite, str) else ' '.join(suite)))
out = ["# Independently seeded changes (fresh sub-agents given only the property text and a scratch worktree)", "",
       "Each change compiles and passes the pinned suite (run by the seeder and re-run by the lead: `suite` column), comes with a demonstration that fails with",
       "the change and passes without it (re-built and re-run by the lead), and was then given to the /verif check (`VERIF_REPO=<worktree> ./check <ID> --tier quick`).", "",
       "| seed | change | needs, to manifest | verdict of the check | signatures / how it was caught | suite |", "|---|---|---|---|---|---|"]
for r in rows: out.append("| %s | %s | %s | %s | %s | %s |" % r)
n = len(rows); d1 = sum(1 for r in rows if r[3] == 'detected'); d2 = sum(1 for r in rows if r[3].startswith('missed at first;')); d3 = sum(1 for r in rows if r[3].startswith('detected, but only')); op = sum(1 for r in rows if 'open' in r[3])
out += ["", "Totals: %d seeded changes; %d detected by the check as it stood; %d missed at first and detected after the alphabet was widened (never by special-casing); %d more caught only by a widening made on reading the seeder's report before the first run (misses of the earlier check); %d still open." % (n, d1, d2, d3, op)]
open('/verif/seeded/RESULTS.md', 'w').write('\n'.join(out) + '\n')
print(out[-1])
