/* mc.h — shared explorer runtime for the /verif harnesses.
 *
 * Every harness is a C program that enumerates a finite space of executions of the *real*
 * libopus code. This runtime supplies: option parsing, 16-way process parallelism over
 * "items" (top-level enumeration coordinates), crash/hang containment with attribution to the
 * case in flight, shared counters, a lock-free shared visited-set of 64-bit state hashes,
 * failure records with replay files, and the @STAT/@SAMPLE/@FAIL line protocol that ./check
 * turns into evidence JSON and VIOLATION lines.
 *
 * Determinism rules (DESIGN G3): no clock or rand() influences what is enumerated; the seed only
 * rotates the order in which items are visited.
 */
#ifndef MC_H
#define MC_H
#include <stdint.h>
#include <stddef.h>
#include <stdio.h>

typedef struct {
   int tier;            /* 0 quick, 1 thorough */
   unsigned seed;       /* rotates visiting order only */
   int jobs;            /* worker processes */
   double deadline_s;   /* wall-clock budget after which no new item is started (0 = none) */
   long only_item;      /* >=0: replay mode, run just this item in-process */
   int cpu_limit_s;     /* per-item CPU watchdog */
   const char *outdir;  /* where replay files go */
   const char *prop;    /* property id */
   const char *part;    /* part name */
   int argc; char **argv; /* remaining harness-specific args */
} mc_opts;
extern mc_opts MC;

/* parse --tier --seed --jobs --deadline --only --cpu --out; the rest stays in MC.argv */
void mc_init(int argc, char **argv, const char *prop, const char *part);
/* harness-specific integer option "--name v" from MC.argv (default if absent) */
long mc_arg(const char *name, long dflt);
const char *mc_arg_s(const char *name, const char *dflt);

/* shared counters (create before mc_par) */
typedef long mc_ctr;
mc_ctr *mc_counter(const char *name);
#define MC_ADD(c,n) __atomic_fetch_add((c),(long)(n),__ATOMIC_RELAXED)
#define MC_INC(c) MC_ADD(c,1)
#define MC_MAX(c,v) do{ long o_=__atomic_load_n((c),__ATOMIC_RELAXED), v_=(v); while(v_>o_ && !__atomic_compare_exchange_n((c),&o_,v_,1,__ATOMIC_RELAXED,__ATOMIC_RELAXED)); }while(0)

/* shared visited set of 64-bit hashes (0 is remapped) */
typedef struct mc_set mc_set;
mc_set *mc_set_new(int log2cap);
int mc_set_add(mc_set *s, uint64_t h);     /* 1 if newly inserted */
int mc_set_has(mc_set *s, uint64_t h);
long mc_set_count(mc_set *s);
uint64_t mc_hash(const void *p, size_t n, uint64_t seed);
static inline uint64_t mc_mix(uint64_t a, uint64_t b){ a^=b+0x9e3779b97f4a7c15ULL+(a<<6)+(a>>2); a*=0xff51afd7ed558ccdULL; a^=a>>33; return a; }

/* shared memory that survives fork (zeroed) */
void *mc_shared(size_t n);

/* describe the case in flight (for crash / hang attribution). sig is a short stable token naming
 * the call-site category ("decode16", "has_lbrr", ...). Cheap: a bounded vsnprintf into shared memory. */
void mc_case(const char *sig, const char *fmt, ...) __attribute__((format(printf,2,3)));
/* cheaper variant for hot loops: remember only pointers to the bytes; formatted lazily on crash by the
 * parent?  not possible across processes -> use mc_case_bytes which memcpy's up to 64 bytes */
void mc_case_bytes(const char *sig, const void *bytes, int n, long a, long b, long c);

/* record a property failure. sig must be specific (function, argument shape, first failing step);
 * ./check matches it against known_findings.jsonl. */
void mc_fail(const char *sig, const char *fmt, ...) __attribute__((format(printf,2,3)));
/* record one written-out example case for the evidence file (bounded) */
void mc_sample(const char *fmt, ...) __attribute__((format(printf,1,2)));
void mc_info(const char *fmt, ...) __attribute__((format(printf,1,2)));

/* run fn(item) for item in [0,nitems) over MC.jobs forked workers. Returns number of items that were
 * not completed because the deadline passed (0 = exhaustive). Crashes/hangs become @FAIL records with
 * sig "crash:<sig>" / "hang:<sig>" and the worker is respawned past the offending item. */
typedef void (*mc_item_fn)(long item, void *ctx);
long mc_par(long nitems, mc_item_fn fn, void *ctx);
/* current item (inside fn) */
long mc_cur_item(void);
int mc_worker_id(void);
int mc_deadline_passed(void);

/* print all counters as @STAT lines and the exhaustive flag; returns process exit code 0 */
int mc_finish(void);
/* mark the run as non-exhaustive for a stated reason */
void mc_capped(const char *why);

/* exact-size guarded buffers: malloc'd block of exactly n bytes (ASan redzones at both ends when built
 * with ASan) preceded/followed by our own canaries in a larger block when not under ASan. */
typedef struct { unsigned char *base; size_t n; unsigned char *p; } mc_gbuf;
void mc_galloc(mc_gbuf *g, size_t n);
int  mc_gcheck(const mc_gbuf *g);      /* 1 ok, 0 canary damaged */
void mc_gfree(mc_gbuf *g);

/* deterministic LCG */
static inline uint32_t mc_lcg(uint32_t *s){ *s = *s*1664525u+1013904223u; return *s; }

/* hex dump helper (static buffer ring) */
const char *mc_hex(const void *p, int n);

#endif
