/* ref_api.h — prototypes of the frozen reference codec (pinned sources in /verif/ref, symbols prefixed ref_;
 * the fixed-point reference build is prefixed reffx_). Object types are opaque and only ever handled by pointer. */
#ifndef REF_API_H
#define REF_API_H
#include "opus.h"
#include "opus_multistream.h"
#include "opus_projection.h"
#define REF_DECL(P) \
int P##opus_encoder_get_size(int channels); \
OpusEncoder *P##opus_encoder_create(opus_int32 Fs,int channels,int application,int *error); \
int P##opus_encoder_init(OpusEncoder *st,opus_int32 Fs,int channels,int application); \
opus_int32 P##opus_encode(OpusEncoder *st,const opus_int16 *pcm,int frame_size,unsigned char *data,opus_int32 max_data_bytes); \
opus_int32 P##opus_encode24(OpusEncoder *st,const opus_int32 *pcm,int frame_size,unsigned char *data,opus_int32 max_data_bytes); \
opus_int32 P##opus_encode_float(OpusEncoder *st,const float *pcm,int frame_size,unsigned char *data,opus_int32 max_data_bytes); \
void P##opus_encoder_destroy(OpusEncoder *st); \
int P##opus_encoder_ctl(OpusEncoder *st,int request,...); \
int P##opus_decoder_get_size(int channels); \
OpusDecoder *P##opus_decoder_create(opus_int32 Fs,int channels,int *error); \
int P##opus_decoder_init(OpusDecoder *st,opus_int32 Fs,int channels); \
int P##opus_decode(OpusDecoder *st,const unsigned char *data,opus_int32 len,opus_int16 *pcm,int frame_size,int decode_fec); \
int P##opus_decode24(OpusDecoder *st,const unsigned char *data,opus_int32 len,opus_int32 *pcm,int frame_size,int decode_fec); \
int P##opus_decode_float(OpusDecoder *st,const unsigned char *data,opus_int32 len,float *pcm,int frame_size,int decode_fec); \
int P##opus_decoder_ctl(OpusDecoder *st,int request,...); \
void P##opus_decoder_destroy(OpusDecoder *st); \
int P##opus_packet_parse(const unsigned char *data,opus_int32 len,unsigned char *out_toc,const unsigned char *frames[48],opus_int16 size[48],int *payload_offset); \
int P##opus_packet_get_nb_samples(const unsigned char packet[],opus_int32 len,opus_int32 Fs); \
OpusRepacketizer *P##opus_repacketizer_create(void); \
OpusRepacketizer *P##opus_repacketizer_init(OpusRepacketizer *rp); \
void P##opus_repacketizer_destroy(OpusRepacketizer *rp); \
int P##opus_repacketizer_cat(OpusRepacketizer *rp,const unsigned char *data,opus_int32 len); \
opus_int32 P##opus_repacketizer_out_range(OpusRepacketizer *rp,int begin,int end,unsigned char *data,opus_int32 maxlen); \
opus_int32 P##opus_repacketizer_out(OpusRepacketizer *rp,unsigned char *data,opus_int32 maxlen); \
int P##opus_repacketizer_get_nb_frames(OpusRepacketizer *rp); \
int P##opus_packet_pad(unsigned char *data,opus_int32 len,opus_int32 new_len); \
opus_int32 P##opus_packet_unpad(unsigned char *data,opus_int32 len); \
OpusMSEncoder *P##opus_multistream_encoder_create(opus_int32 Fs,int channels,int streams,int coupled_streams,const unsigned char *mapping,int application,int *error); \
OpusMSEncoder *P##opus_multistream_surround_encoder_create(opus_int32 Fs,int channels,int mapping_family,int *streams,int *coupled_streams,unsigned char *mapping,int application,int *error); \
int P##opus_multistream_encode(OpusMSEncoder *st,const opus_int16 *pcm,int frame_size,unsigned char *data,opus_int32 max_data_bytes); \
int P##opus_multistream_encode_float(OpusMSEncoder *st,const float *pcm,int frame_size,unsigned char *data,opus_int32 max_data_bytes); \
int P##opus_multistream_encoder_ctl(OpusMSEncoder *st,int request,...); \
void P##opus_multistream_encoder_destroy(OpusMSEncoder *st); \
OpusMSDecoder *P##opus_multistream_decoder_create(opus_int32 Fs,int channels,int streams,int coupled_streams,const unsigned char *mapping,int *error); \
int P##opus_multistream_decode(OpusMSDecoder *st,const unsigned char *data,opus_int32 len,opus_int16 *pcm,int frame_size,int decode_fec); \
int P##opus_multistream_decode_float(OpusMSDecoder *st,const unsigned char *data,opus_int32 len,float *pcm,int frame_size,int decode_fec); \
int P##opus_multistream_decoder_ctl(OpusMSDecoder *st,int request,...); \
void P##opus_multistream_decoder_destroy(OpusMSDecoder *st); \
OpusProjectionEncoder *P##opus_projection_ambisonics_encoder_create(opus_int32 Fs,int channels,int mapping_family,int *streams,int *coupled_streams,int application,int *error); \
int P##opus_projection_encode(OpusProjectionEncoder *st,const opus_int16 *pcm,int frame_size,unsigned char *data,opus_int32 max_data_bytes); \
int P##opus_projection_encoder_ctl(OpusProjectionEncoder *st,int request,...); \
void P##opus_projection_encoder_destroy(OpusProjectionEncoder *st); \
void P##opus_pcm_soft_clip(float *pcm,int frame_size,int channels,float *softclip_mem);
REF_DECL(ref_)
REF_DECL(reffx_)
/* private ctl used to pin the coding mode of the reference encoder */
#ifndef OPUS_SET_FORCE_MODE_REQUEST
#define OPUS_SET_FORCE_MODE_REQUEST 11002
#define OPUS_SET_FORCE_MODE(x) OPUS_SET_FORCE_MODE_REQUEST, (opus_int32)(x)
#endif
#define REF_MODE_SILK_ONLY 1000
#define REF_MODE_HYBRID    1001
#define REF_MODE_CELT_ONLY 1002
#endif
