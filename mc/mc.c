/* mc.c — shared explorer runtime (see mc.h) */
#define _GNU_SOURCE
#include "mc.h"
#include <stdlib.h>
#include <string.h>
#include <stdarg.h>
#include <unistd.h>
#include <errno.h>
#include <signal.h>
#include <time.h>
#include <sys/mman.h>
#include <sys/wait.h>
#include <sys/time.h>
#include <sys/resource.h>
#include <sys/personality.h>

#if defined(__SANITIZE_ADDRESS__)
# define MC_ASAN 1
#elif defined(__has_feature)
# if __has_feature(address_sanitizer)
#  define MC_ASAN 1
# endif
#endif
#ifndef MC_ASAN
# define MC_ASAN 0
#endif

mc_opts MC;

#define MAXCTR 96
#define MAXW 64
#define MAXSIG 256
typedef struct {
   long cur_item; long k; int hang; int pad;
   char sig[64];
   char desc[1400];
} slot_t;
typedef struct {
   char names[MAXCTR][48]; long vals[MAXCTR]; int nctr;
   uint64_t sigh[MAXSIG]; long sigcnt[MAXSIG];
   long nfail, nsample, ninfo, nreplay;
   long items_done, items_total, items_skipped, items_aborted, respawns, next_k;
   int ncap; char caps[8][160];
   slot_t slot[MAXW];
} shm_t;
static shm_t *S;
static int g_worker = -1;
static double g_t0;
static char g_argline[2048];

static double now_s(void){ struct timespec t; clock_gettime(CLOCK_MONOTONIC,&t); return t.tv_sec+1e-9*t.tv_nsec; }

void *mc_shared(size_t n){
   void *p = mmap(NULL, n, PROT_READ|PROT_WRITE, MAP_SHARED|MAP_ANONYMOUS|MAP_NORESERVE, -1, 0);
   if (p==MAP_FAILED){ perror("mmap"); exit(2); }
   return p;
}

static void out_line(const char *s, size_t n){
   /* one write per line so concurrent workers never interleave inside a line */
   while (n>0){ ssize_t w = write(1, s, n); if (w<0){ if(errno==EINTR) continue; break; } s+=w; n-=w; }
}

void mc_init(int argc, char **argv, const char *prop, const char *part){
   int i, k=0;
   /* disable ASLR so that pointers stored inside codec states hash alike in every process */
   if (!getenv("MC_NOASLR_DONE")){
      int pers = personality(0xffffffff);
      if (pers!=-1 && !(pers & ADDR_NO_RANDOMIZE)){
         if (personality(pers|ADDR_NO_RANDOMIZE)!=-1){ setenv("MC_NOASLR_DONE","1",1); execv("/proc/self/exe", argv); }
      }
   }
   memset(&MC,0,sizeof MC);
   MC.tier=0; MC.seed=0; MC.jobs=16; MC.deadline_s=0; MC.only_item=-1; MC.cpu_limit_s=120; MC.outdir="."; MC.prop=prop; MC.part=part;
   MC.argv = calloc(argc+1,sizeof(char*));
   g_argline[0]=0;
   for (i=1;i<argc;i++){
      if (!strcmp(argv[i],"--tier")&&i+1<argc){ i++; MC.tier = !strcmp(argv[i],"thorough"); }
      else if (!strcmp(argv[i],"--seed")&&i+1<argc) MC.seed=(unsigned)strtoul(argv[++i],0,10);
      else if (!strcmp(argv[i],"--jobs")&&i+1<argc) MC.jobs=atoi(argv[++i]);
      else if (!strcmp(argv[i],"--deadline")&&i+1<argc) MC.deadline_s=atof(argv[++i]);
      else if (!strcmp(argv[i],"--only")&&i+1<argc) MC.only_item=atol(argv[++i]);
      else if (!strcmp(argv[i],"--cpu")&&i+1<argc) MC.cpu_limit_s=atoi(argv[++i]);
      else if (!strcmp(argv[i],"--out")&&i+1<argc) MC.outdir=argv[++i];
      else { MC.argv[k++]=argv[i]; if (strlen(g_argline)+strlen(argv[i])+2<sizeof g_argline){ strcat(g_argline,argv[i]); strcat(g_argline," "); } }
   }
   MC.argc=k;
   if (MC.jobs<1) MC.jobs=1; if (MC.jobs>MAXW) MC.jobs=MAXW;
   S = mc_shared(sizeof *S);
   g_t0 = now_s();
   setvbuf(stdout,NULL,_IOLBF,0);
}

long mc_arg(const char *name, long dflt){
   int i; for(i=0;i+1<MC.argc;i++) if(!strcmp(MC.argv[i],name)) return atol(MC.argv[i+1]);
   return dflt;
}
const char *mc_arg_s(const char *name, const char *dflt){
   int i; for(i=0;i+1<MC.argc;i++) if(!strcmp(MC.argv[i],name)) return MC.argv[i+1];
   return dflt;
}

mc_ctr *mc_counter(const char *name){
   int i; for(i=0;i<S->nctr;i++) if(!strcmp(S->names[i],name)) return &S->vals[i];
   if (S->nctr>=MAXCTR){ fprintf(stderr,"too many counters\n"); exit(2); }
   snprintf(S->names[S->nctr],48,"%s",name);
   return &S->vals[S->nctr++];
}

/* ---------------- hashing / visited set ---------------- */
uint64_t mc_hash(const void *p, size_t n, uint64_t seed){
   const unsigned char *b=p; uint64_t h=seed^0x9e3779b97f4a7c15ULL^(n*0xff51afd7ed558ccdULL), h2=0x243f6a8885a308d3ULL;
   while(n>=16){ uint64_t w0,w1; memcpy(&w0,b,8); memcpy(&w1,b+8,8); h=(h^w0)*0x9fb21c651e98df25ULL; h^=h>>29; h2=(h2^w1)*0xc2b2ae3d27d4eb4fULL; h2^=h2>>31; b+=16;n-=16; }
   while(n>=8){ uint64_t w; memcpy(&w,b,8); h=(h^w)*0x9fb21c651e98df25ULL; h^=h>>29; b+=8;n-=8; }
   { uint64_t w=0; if(n) memcpy(&w,b,n); h=(h^w)*0x9fb21c651e98df25ULL; h^=h>>32; }
   h ^= h2*0xd6e8feb86659fd93ULL; h^=h>>32; h*=0xd6e8feb86659fd93ULL; h^=h>>32;
   return h;
}
struct mc_set { uint64_t cap, mask; long count; long full; uint64_t tab[]; };
mc_set *mc_set_new(int log2cap){
   uint64_t cap=1ULL<<log2cap; mc_set *s = mc_shared(sizeof(mc_set)+cap*8);
   s->cap=cap; s->mask=cap-1; return s;
}
int mc_set_add(mc_set *s, uint64_t h){
   uint64_t i; if(!h) h=1; i=(h*0x9e3779b97f4a7c15ULL)>>7 & s->mask;
   if ((uint64_t)__atomic_load_n(&s->count,__ATOMIC_RELAXED) > s->cap - (s->cap>>2)){ __atomic_store_n(&s->full,1,__ATOMIC_RELAXED); return 1; }
   for(;;){
      uint64_t v=__atomic_load_n(&s->tab[i],__ATOMIC_RELAXED);
      if (v==h) return 0;
      if (v==0){ uint64_t e=0; if(__atomic_compare_exchange_n(&s->tab[i],&e,h,0,__ATOMIC_RELAXED,__ATOMIC_RELAXED)){ __atomic_fetch_add(&s->count,1,__ATOMIC_RELAXED); return 1; } if(e==h) return 0; }
      i=(i+1)&s->mask;
   }
}
int mc_set_has(mc_set *s, uint64_t h){
   uint64_t i; if(!h) h=1; i=(h*0x9e3779b97f4a7c15ULL)>>7 & s->mask;
   for(;;){ uint64_t v=__atomic_load_n(&s->tab[i],__ATOMIC_RELAXED); if(v==h) return 1; if(v==0) return 0; i=(i+1)&s->mask; }
}
long mc_set_count(mc_set *s){ if (s->full) mc_capped("visited set filled; states is a lower bound"); return __atomic_load_n(&s->count,__ATOMIC_RELAXED); }

/* ---------------- case / fail / sample ---------------- */
static slot_t *myslot(void){ return &S->slot[g_worker<0?0:g_worker]; }
void mc_case(const char *sig, const char *fmt, ...){
   slot_t *sl=myslot(); va_list ap;
   snprintf(sl->sig,sizeof sl->sig,"%s",sig);
   va_start(ap,fmt); vsnprintf(sl->desc,sizeof sl->desc,fmt,ap); va_end(ap);
}
void mc_case_bytes(const char *sig, const void *bytes, int n, long a, long b, long c){
   slot_t *sl=myslot(); int i,k; const unsigned char *p=bytes; static const char hx[]="0123456789abcdef";
   strncpy(sl->sig,sig,sizeof sl->sig-1); sl->sig[sizeof sl->sig-1]=0;
   k=snprintf(sl->desc,200,"a=%ld b=%ld c=%ld len=%d bytes=",a,b,c,n);
   if (n>600) n=600;
   for(i=0;i<n;i++){ sl->desc[k++]=hx[p[i]>>4]; sl->desc[k++]=hx[p[i]&15]; }
   sl->desc[k]=0;
}
const char *mc_hex(const void *p, int n){
   static char ring[4][2600]; static int r; char *o=ring[r=(r+1)&3]; const unsigned char *b=p; int i,k=0;
   if(n<0) n=0; if(n>1290){ n=1290; }
   for(i=0;i<n;i++) k+=sprintf(o+k,"%02x",b[i]);
   o[k]=0; return o;
}
static void sanitize(char *s){ for(;*s;s++) if(*s=='\n'||*s=='\r') *s=' '; }

static void emit_fail(const char *sig, const char *msg, long item){
   uint64_t h=mc_hash(sig,strlen(sig),7); int i; long cnt=0; char line[4096]; char path[512]; path[0]=0;
   if(!h) h=1;
   __atomic_fetch_add(&S->nfail,1,__ATOMIC_RELAXED);
   for(i=0;i<MAXSIG;i++){
      uint64_t v=__atomic_load_n(&S->sigh[i],__ATOMIC_RELAXED);
      if(v==0){ uint64_t e=0; if(__atomic_compare_exchange_n(&S->sigh[i],&e,h,0,__ATOMIC_RELAXED,__ATOMIC_RELAXED)) v=h; else v=e; }
      if(v==h){ cnt=__atomic_fetch_add(&S->sigcnt[i],1,__ATOMIC_RELAXED); break; }
   }
   if (i==MAXSIG) cnt=0;
   if (cnt>=3) return; /* first three per signature are written out; all are counted */
   {
      long n=__atomic_fetch_add(&S->nreplay,1,__ATOMIC_RELAXED); FILE *f;
      snprintf(path,sizeof path,"%s/%s-%s-%ld-%ld.replay",MC.outdir,MC.prop,MC.part,item,n);
      f=fopen(path,"w");
      if(f){ fprintf(f,"property=%s\npart=%s\nitem=%ld\nsig=%s\ntier=%s\nargs=%s\nmsg=%s\n",MC.prop,MC.part,item,sig,MC.tier?"thorough":"quick",g_argline,msg); fclose(f); }
   }
   snprintf(line,sizeof line,"@FAIL sig=%s item=%ld replay=%s :: %s\n",sig,item,path,msg);
   out_line(line,strlen(line));
}
void mc_fail(const char *sig, const char *fmt, ...){
   char msg[3000]; va_list ap; va_start(ap,fmt); vsnprintf(msg,sizeof msg,fmt,ap); va_end(ap); sanitize(msg);
   emit_fail(sig,msg,myslot()->cur_item);
}
void mc_sample(const char *fmt, ...){
   char msg[3000], line[3100]; va_list ap; long n=__atomic_fetch_add(&S->nsample,1,__ATOMIC_RELAXED);
   if(n>=12) return;
   va_start(ap,fmt); vsnprintf(msg,sizeof msg,fmt,ap); va_end(ap); sanitize(msg);
   snprintf(line,sizeof line,"@SAMPLE %s\n",msg); out_line(line,strlen(line));
}
void mc_info(const char *fmt, ...){
   char msg[3000], line[3100]; va_list ap; long n=__atomic_fetch_add(&S->ninfo,1,__ATOMIC_RELAXED);
   if(n>=200) return;
   va_start(ap,fmt); vsnprintf(msg,sizeof msg,fmt,ap); va_end(ap); sanitize(msg);
   snprintf(line,sizeof line,"@INFO %s\n",msg); out_line(line,strlen(line));
}
void mc_capped(const char *why){
   int i; for(i=0;i<S->ncap;i++) if(!strncmp(S->caps[i],why,159)) return;
   i=__atomic_fetch_add(&S->ncap,1,__ATOMIC_RELAXED); if(i<8) snprintf(S->caps[i],160,"%s",why); else S->ncap=8;
}

/* ---------------- parallel driver ---------------- */
long mc_cur_item(void){ return myslot()->cur_item; }
int mc_worker_id(void){ return g_worker<0?0:g_worker; }
int mc_deadline_passed(void){ return MC.deadline_s>0 && now_s()-g_t0 > MC.deadline_s; }

static void on_prof(int s){ (void)s; if(S&&g_worker>=0) S->slot[g_worker].hang=1; _exit(98); }
static void arm_cpu(int sec){ struct itimerval it; memset(&it,0,sizeof it); it.it_value.tv_sec=sec; setitimer(ITIMER_PROF,&it,NULL); }

static void worker(int w, long nitems, long rot, mc_item_fn fn, void *ctx){
   /* dynamic dealing: a shared cursor hands out items, so uneven item costs do not idle workers */
   g_worker=w; signal(SIGPROF,on_prof);
   for(;;){
      long k, item;
      if (mc_deadline_passed()) break;
      k=__atomic_fetch_add(&S->next_k,1,__ATOMIC_RELAXED);
      if (k>=nitems) break;
      item=(k+rot)%nitems;
      S->slot[w].cur_item=item; S->slot[w].k=k; S->slot[w].hang=0; S->slot[w].sig[0]=0; S->slot[w].desc[0]=0;
      arm_cpu(MC.cpu_limit_s);
      fn(item,ctx);
      arm_cpu(0);
      __atomic_fetch_add(&S->items_done,1,__ATOMIC_RELAXED);
   }
   fflush(stdout); _exit(0);
}

long mc_par(long nitems, mc_item_fn fn, void *ctx){
   int W=MC.jobs, w, live=0; pid_t pid[MAXW]; long rot = nitems>0 ? (long)(MC.seed % (unsigned long)nitems) : 0;
   long done0=S->items_done, ab0=S->items_aborted, skipped;
   __atomic_fetch_add(&S->items_total,nitems,__ATOMIC_RELAXED);
   if (nitems<=0) return 0;
   if (MC.only_item>=0){
      /* replay: one item, in-process, generous CPU limit (DESIGN G4: 20x) */
      g_worker=0; signal(SIGPROF,on_prof); S->slot[0].cur_item=MC.only_item; arm_cpu(MC.cpu_limit_s*20);
      if (MC.only_item<nitems) fn(MC.only_item,ctx);
      arm_cpu(0); g_worker=-1; S->items_done++;
      return 0;
   }
   fflush(stdout);
   S->next_k=0;
   if (W>nitems) W=(int)nitems;
   for(w=0;w<W;w++){ pid[w]=fork(); if(pid[w]<0){perror("fork");exit(2);} if(pid[w]==0) worker(w,nitems,rot,fn,ctx); live++; }
   while(live>0){
      int st; pid_t p=wait(&st); if(p<0){ if(errno==EINTR) continue; break; }
      for(w=0;w<W;w++) if(pid[w]==p) break;
      if(w==W) continue;
      live--; pid[w]=-1;
      if (WIFEXITED(st) && WEXITSTATUS(st)==0) continue;
      {  /* abnormal end: attribute to the case in flight */
         slot_t *sl=&S->slot[w]; char sig[96], msg[1800];
         int hang = (WIFEXITED(st)&&WEXITSTATUS(st)==98) || sl->hang;
         snprintf(sig,sizeof sig,"%s:%s",hang?"hang":"crash",sl->sig[0]?sl->sig:"unattributed");
         if (WIFSIGNALED(st)) snprintf(msg,sizeof msg,"worker died with signal %d during case: %.1300s",WTERMSIG(st),sl->desc);
         else snprintf(msg,sizeof msg,"worker exited with status %d (%s) during case: %.1300s",WEXITSTATUS(st),hang?"CPU watchdog":"abnormal",sl->desc);
         emit_fail(sig,msg,sl->cur_item);
         S->items_aborted++;
         if (S->respawns++ < 400){
            pid[w]=fork(); if(pid[w]==0) worker(w,nitems,rot,fn,ctx); if(pid[w]>0) live++;
         } else mc_capped("too many worker crashes; remaining items not run");
      }
   }
   skipped = nitems - (S->items_done-done0) - (S->items_aborted-ab0);
   if (skipped<0) skipped=0;
   S->items_skipped += skipped;
   return skipped;
}

int mc_finish(void){
   int i; char line[512];
   for(i=0;i<S->nctr;i++){ snprintf(line,sizeof line,"@STAT %s %ld\n",S->names[i],S->vals[i]); out_line(line,strlen(line)); }
   snprintf(line,sizeof line,"@STAT items_total %ld\n@STAT items_done %ld\n@STAT items_skipped %ld\n@STAT items_aborted %ld\n@STAT failures %ld\n",S->items_total,S->items_done,S->items_skipped,S->items_aborted,S->nfail); out_line(line,strlen(line));
   if (S->items_skipped>0) mc_capped("wall-clock deadline reached before all items were visited");
   for(i=0;i<S->ncap&&i<8;i++){ snprintf(line,sizeof line,"@CAP %s\n",S->caps[i]); out_line(line,strlen(line)); }
   snprintf(line,sizeof line,"@STAT exhaustive %d\n@STAT harness_wall_ms %ld\n@DONE\n",(S->ncap==0 && S->items_aborted==0 && MC.only_item<0)?1:0,(long)((now_s()-g_t0)*1000)); out_line(line,strlen(line));
   return 0;
}

/* ---------------- guarded buffers ---------------- */
void mc_galloc(mc_gbuf *g, size_t n){
#if MC_ASAN
   g->base = malloc(n?n:1); g->p=g->base; g->n=n;
#else
   g->base = malloc(n+64); memset(g->base,0xA5,n+64); g->p=g->base+32; g->n=n;
#endif
   if(!g->base){ fprintf(stderr,"oom\n"); exit(2); }
}
int mc_gcheck(const mc_gbuf *g){
#if MC_ASAN
   (void)g; return 1;
#else
   int i; for(i=0;i<32;i++) if(g->base[i]!=0xA5 || g->p[g->n+i]!=0xA5) return 0; return 1;
#endif
}
void mc_gfree(mc_gbuf *g){ free(g->base); g->base=g->p=NULL; }
