/* rfc_framing.h — executable model of RFC 6716 section 3 (frame packing, rules R1–R7) and Appendix B
 * (self-delimiting framing), transcribed from the text shipped in doc/draft-ietf-codec-opus.xml.
 * Written independently of src/opus.c: a recursive-descent acceptor over (bytes, N).
 * Used as the reference by C06 and as a packet splitter by C01/C02/C05/C07/C10.
 */
#ifndef RFC_FRAMING_H
#define RFC_FRAMING_H
#include <string.h>

typedef struct {
   int ok;                /* well-formed? */
   int toc, count;        /* TOC byte, number of frames */
   int size[48], off[48]; /* frame lengths and offsets from the first byte */
   int payload_offset;    /* offset of the first frame */
   int pad_off, pad_len;  /* offset and amount of padding *data* (excluding the padding length bytes) */
   int consumed;          /* standard framing: N; self-delimited: bytes belonging to this packet */
   int vbr, has_pad_flag;
} rfc_pkt;

/* Table 2 of the RFC: configuration number -> frame duration in samples at 48 kHz */
static int rfc_frame_48k(int toc){
   int c=toc>>3;
   if (c<12){ static const int d[4]={480,960,1920,2880}; return d[c&3]; }      /* SILK-only 10/20/40/60 ms */
   if (c<16) return (c&1)?960:480;                                              /* Hybrid 10/20 ms */
   return 120<<(c&3);                                                           /* CELT-only 2.5/5/10/20 ms */
}
/* 0 SILK-only, 1 hybrid, 2 CELT-only */
static int rfc_mode(int toc){ int c=toc>>3; return c<12?0:c<16?1:2; }
/* bandwidth 0 NB,1 MB,2 WB,3 SWB,4 FB */
static int rfc_bandwidth(int toc){
   int c=toc>>3;
   if (c<12) return c>>2;                 /* NB, MB, WB */
   if (c<16) return c<14?3:4;             /* SWB, FB */
   { static const int b[4]={0,2,3,4}; return b[(c-16)>>2]; }  /* CELT: NB, WB, SWB, FB */
}
static int rfc_channels(int toc){ return (toc&4)?2:1; }

/* section 3.2.1: one- or two-byte frame length at b[pos..end); returns bytes used or -1 */
static int rfc_rdlen(const unsigned char *b,int pos,int end,int *val){
   if (pos>=end) return -1;
   if (b[pos]<252){ *val=b[pos]; return 1; }
   if (pos+1>=end) return -1;
   *val=4*b[pos+1]+b[pos]; return 2;
}

static void rfc_parse(const unsigned char *b,int N,int self_delimited,rfc_pkt *m){
   int toc,code,pos,i,o;
   memset(m,0,sizeof *m);
   if (N<1) return;                                   /* R1 */
   toc=b[0]; code=toc&3; m->toc=toc; pos=1;
   if (!self_delimited){
      if (code==0){ int L=N-1; if(L>1275) return; m->count=1; m->size[0]=L; }                       /* R2 */
      else if (code==1){ int L; if((N-1)&1) return; L=(N-1)/2; if(L>1275) return; m->count=2; m->size[0]=m->size[1]=L; }  /* R3 */
      else if (code==2){ int n1,u,rem,l2; u=rfc_rdlen(b,pos,N,&n1); if(u<0) return; pos+=u; rem=N-pos; if(n1>rem) return; /* R4 */
         l2=rem-n1; if(l2>1275) return; m->count=2; m->size[0]=n1; m->size[1]=l2; }
      else {
         int fc,M,pad=0,P,end;
         if (N<2) return;                             /* R6,R7 */
         fc=b[1]; M=fc&0x3F; m->vbr=(fc>>7)&1; m->has_pad_flag=(fc>>6)&1;
         if (M==0) return;
         if (rfc_frame_48k(toc)*M>5760) return;       /* R5: at most 120 ms */
         pos=2;
         if (fc&0x40){ for(;;){ int x; if(pos>=N) return; x=b[pos++]; if(x==255) pad+=254; else { pad+=x; break; } } }
         P=(pos-2)+pad; if (P>N-2) return;            /* P no more than N-2 */
         end=N-pad; m->pad_len=pad; m->count=M;
         if (!m->vbr){ int R=N-2-P,L; if(R%M) return; L=R/M; if(L>1275) return; for(i=0;i<M;i++) m->size[i]=L; }   /* R6 */
         else { int sum=0,rem,last; for(i=0;i<M-1;i++){ int v,u=rfc_rdlen(b,pos,end,&v); if(u<0) return; pos+=u; m->size[i]=v; sum+=v; }
            rem=end-pos; if(sum>rem) return; last=rem-sum; if(last>1275) return; m->size[M-1]=last; }             /* R7 */
      }
      m->consumed=N;
   } else {
      int L,u;
      if (code==0){ u=rfc_rdlen(b,pos,N,&L); if(u<0) return; pos+=u; if(L>N-pos) return; m->count=1; m->size[0]=L; }
      else if (code==1){ u=rfc_rdlen(b,pos,N,&L); if(u<0) return; pos+=u; if(2*L>N-pos) return; m->count=2; m->size[0]=m->size[1]=L; }
      else if (code==2){ int n1; u=rfc_rdlen(b,pos,N,&n1); if(u<0) return; pos+=u; u=rfc_rdlen(b,pos,N,&L); if(u<0) return; pos+=u;
         if(n1+L>N-pos) return; m->count=2; m->size[0]=n1; m->size[1]=L; }
      else {
         int fc,M,pad=0;
         if (N<2) return;
         fc=b[1]; M=fc&0x3F; m->vbr=(fc>>7)&1; m->has_pad_flag=(fc>>6)&1;
         if (M==0) return;
         if (rfc_frame_48k(toc)*M>5760) return;
         pos=2;
         if (fc&0x40){ for(;;){ int x; if(pos>=N) return; x=b[pos++]; if(x==255) pad+=254; else { pad+=x; break; } } }
         m->pad_len=pad; m->count=M;
         if (!m->vbr){ u=rfc_rdlen(b,pos,N,&L); if(u<0) return; pos+=u; if((long)M*L+pad>N-pos) return; for(i=0;i<M;i++) m->size[i]=L; }
         else { int sum=0; for(i=0;i<M-1;i++){ int v; u=rfc_rdlen(b,pos,N,&v); if(u<0) return; pos+=u; m->size[i]=v; sum+=v; }
            u=rfc_rdlen(b,pos,N,&L); if(u<0) return; pos+=u; m->size[M-1]=L; sum+=L; if(sum+pad>N-pos) return; }
      }
   }
   m->payload_offset=pos; o=pos;
   for(i=0;i<m->count;i++){ m->off[i]=o; o+=m->size[i]; }
   m->pad_off=o;
   if (code!=3) m->pad_len=0;
   if (self_delimited) m->consumed=o+m->pad_len;
   m->ok=1;
}

/* -------- writer (harness-side packet assembly; never the library's) -------- */
static int rfc_wrlen(unsigned char *o,int L){ if(L<252){ o[0]=(unsigned char)L; return 1; } o[0]=(unsigned char)(252+(L&3)); o[1]=(unsigned char)((L-o[0])>>2); return 2; }

/* Build a packet from frames. code: 0,1,2,3 ; vbr only for code 3; pad = total padding *data* bytes (-1: no padding flag);
 * self_delimited adds the Appendix-B length. Returns length, or -1 if not expressible. */
static int rfc_build(unsigned char *o,int toc_cfg /*toc&0xFC*/,int code,int vbr,int count,const unsigned char **fr,const int *sz,int pad,const unsigned char *paddata,int self_delimited){
   int p=0,i;
   o[p++]=(unsigned char)((toc_cfg&0xFC)|code);
   if (code==0){ if(count!=1) return -1; if(self_delimited) p+=rfc_wrlen(o+p,sz[0]); }
   else if (code==1){ if(count!=2||sz[0]!=sz[1]) return -1; if(self_delimited) p+=rfc_wrlen(o+p,sz[0]); }
   else if (code==2){ if(count!=2) return -1; p+=rfc_wrlen(o+p,sz[0]); if(self_delimited) p+=rfc_wrlen(o+p,sz[1]); }
   else {
      o[p++]=(unsigned char)(count|(vbr?0x80:0)|(pad>=0?0x40:0));
      if (pad>=0){ int r=pad; while(r>=255){ o[p++]=255; r-=254; } o[p++]=(unsigned char)r; }
      if (vbr){ for(i=0;i<count-1;i++) p+=rfc_wrlen(o+p,sz[i]); if(self_delimited) p+=rfc_wrlen(o+p,sz[count-1]); }
      else { for(i=1;i<count;i++) if(sz[i]!=sz[0]) return -1; if(self_delimited) p+=rfc_wrlen(o+p,sz[0]); }
   }
   for(i=0;i<count;i++){ if(sz[i]) memcpy(o+p,fr[i],sz[i]); p+=sz[i]; }
   if (code==3 && pad>0){ if(paddata) memcpy(o+p,paddata,pad); else memset(o+p,0,pad); p+=pad; }
   return p;
}
#endif
