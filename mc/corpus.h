/* corpus.h — packet alphabet built at run time by the FROZEN reference encoder (ref_*), so decoder-side
 * checks do not change when the tree's encoder is edited (DESIGN 3.3). Deterministic: fixed signals, no clock.
 * Needs: spec part with "ref": true.  */
#ifndef CORPUS_H
#define CORPUS_H
#include <stdlib.h>
#include <string.h>
#include <stdio.h>
#include "ref_api.h"
#include "signals.h"
#include "rfc_framing.h"

typedef struct { unsigned char *data; int len; int stream; int idx; opus_uint32 enc_range; int dur48; int kind; /*0 encoder output,1 repacketized,2 padded,3 with extensions*/ } cpkt;
typedef struct { char name[96]; int fs, ch; int first, n; int mode, bw, dur_x10, fec, dtx; } cstream;
typedef struct { cpkt *p; int n, cap; cstream *s; int ns, scap; } corpus;

typedef struct { int mode; int bw; int dur_x10; int ch_force; int bitrate; } ccfg;  /* dur_x10: 25,50,100,200,400,600 (x0.1 ms) */

static void corpus_push(corpus *c,const unsigned char *d,int len,int stream,int idx,opus_uint32 rng,int dur48,int kind){
   if (c->n==c->cap){ c->cap=c->cap?c->cap*2:256; c->p=realloc(c->p,c->cap*sizeof(cpkt)); }
   c->p[c->n].data=malloc(len?len:1); memcpy(c->p[c->n].data,d,len); c->p[c->n].len=len; c->p[c->n].stream=stream; c->p[c->n].idx=idx; c->p[c->n].enc_range=rng; c->p[c->n].dur48=dur48; c->p[c->n].kind=kind; c->n++;
}
static int corpus_new_stream(corpus *c,const char *name,int fs,int ch){
   if (c->ns==c->scap){ c->scap=c->scap?c->scap*2:64; c->s=realloc(c->s,c->scap*sizeof(cstream)); }
   memset(&c->s[c->ns],0,sizeof(cstream)); snprintf(c->s[c->ns].name,96,"%s",name); c->s[c->ns].fs=fs; c->s[c->ns].ch=ch; c->s[c->ns].first=c->n; return c->ns++;
}
static void corpus_apply(OpusEncoder *e,const ccfg *k){
   ref_opus_encoder_ctl(e,OPUS_SET_FORCE_MODE(k->mode?k->mode:OPUS_AUTO));
   ref_opus_encoder_ctl(e,OPUS_SET_BANDWIDTH(k->bw?k->bw:OPUS_AUTO));
   ref_opus_encoder_ctl(e,OPUS_SET_FORCE_CHANNELS(k->ch_force?k->ch_force:OPUS_AUTO));
   if (k->bitrate) ref_opus_encoder_ctl(e,OPUS_SET_BITRATE(k->bitrate));
}
/* encode nA frames with cfg A then nB frames with cfg B (B may be NULL); skip 'warm' leading packets from the corpus */
static int corpus_stream(corpus *c,const char *name,int fs,int ch,int app,int sig,const ccfg *A,int nA,const ccfg *B,int nB,int fec,int dtx,int cbr,int warm){
   int err,i,sid; OpusEncoder *e=ref_opus_encoder_create(fs,ch,app,&err); siggen g; short *pcm; unsigned char out[1500];
   if(!e){ fprintf(stderr,"corpus: encoder_create failed %d\n",err); exit(2); }
   sid=corpus_new_stream(c,name,fs,ch); c->s[sid].mode=A->mode; c->s[sid].bw=A->bw; c->s[sid].dur_x10=A->dur_x10; c->s[sid].fec=fec; c->s[sid].dtx=dtx;
   sig_init(&g,sig,fs,ch,(uint32_t)(sid*7+1)); pcm=malloc(sizeof(short)*ch*fs/8);
   if (fec){ ref_opus_encoder_ctl(e,OPUS_SET_INBAND_FEC(1)); ref_opus_encoder_ctl(e,OPUS_SET_PACKET_LOSS_PERC(20)); }
   if (dtx) ref_opus_encoder_ctl(e,OPUS_SET_DTX(1));
   if (cbr) ref_opus_encoder_ctl(e,OPUS_SET_VBR(0));
   for(i=0;i<nA+nB;i++){
      const ccfg *k=(i<nA)?A:B; int fsz=(int)((long)fs*k->dur_x10/10000), n; opus_uint32 rng=0;
      if (i==0||i==nA) corpus_apply(e,k);
      sig_gen(&g,pcm,fsz);
      n=ref_opus_encode(e,pcm,fsz,out,1500);
      if(n<0){ fprintf(stderr,"corpus: encode failed %d (%s)\n",n,name); exit(2); }
      ref_opus_encoder_ctl(e,OPUS_GET_FINAL_RANGE(&rng));
      if (i>=warm) corpus_push(c,out,n,sid,i,rng,k->dur_x10*48/10,0);
   }
   c->s[sid].n=c->n-c->s[sid].first;
   free(pcm); ref_opus_encoder_destroy(e); return sid;
}
#define BWN OPUS_BANDWIDTH_NARROWBAND
#define BWM OPUS_BANDWIDTH_MEDIUMBAND
#define BWW OPUS_BANDWIDTH_WIDEBAND
#define BWS OPUS_BANDWIDTH_SUPERWIDEBAND
#define BWF OPUS_BANDWIDTH_FULLBAND
/* level 0: compact corpus (about 60 streams x 4 packets); level 1: all 32 configs x mono/stereo x 2 rates */
static void corpus_build(corpus *c,int level){
   static const int silk_bw[3]={BWN,BWM,BWW}, silk_d[4]={100,200,400,600}, hyb_bw[2]={BWS,BWF}, hyb_d[2]={100,200}, celt_bw[4]={BWN,BWW,BWS,BWF}, celt_d[4]={25,50,100,200};
   int ch,b,d,r; char nm[96]; int np = level?6:4;
   memset(c,0,sizeof *c);
   for(ch=1;ch<=2;ch++){
      for(b=0;b<3;b++) for(d=0;d<4;d++) for(r=0;r<(level?2:1);r++){ ccfg k={REF_MODE_SILK_ONLY,silk_bw[b],silk_d[d],0,r?40000:(12000+4000*b)*ch};
         if(!level && ((b+d+ch)%2)) continue;
         snprintf(nm,96,"silk bw%d %dms/10 ch%d r%d",b,silk_d[d],ch,r); corpus_stream(c,nm,48000,ch,OPUS_APPLICATION_VOIP,SIG_SPEECH,&k,np+2,NULL,0,0,0,0,2); }
      for(b=0;b<2;b++) for(d=0;d<2;d++) for(r=0;r<(level?2:1);r++){ ccfg k={REF_MODE_HYBRID,hyb_bw[b],hyb_d[d],0,r?64000*ch:24000*ch};
         snprintf(nm,96,"hybrid bw%d %dms/10 ch%d r%d",b,hyb_d[d],ch,r); corpus_stream(c,nm,48000,ch,OPUS_APPLICATION_VOIP,SIG_SPEECH,&k,np+2,NULL,0,0,0,0,2); }
      for(b=0;b<4;b++) for(d=0;d<4;d++) for(r=0;r<(level?2:1);r++){ ccfg k={REF_MODE_CELT_ONLY,celt_bw[b],celt_d[d],0,r?128000*ch:32000*ch};
         if(!level && ((b+d+ch)%2)) continue;
         snprintf(nm,96,"celt bw%d %dms/10 ch%d r%d",b,celt_d[d],ch,r); corpus_stream(c,nm,48000,ch,OPUS_APPLICATION_AUDIO,SIG_MULTITONE,&k,np+2,NULL,0,0,0,0,2); }
      /* LBRR-bearing SILK and hybrid */
      { ccfg k={REF_MODE_SILK_ONLY,BWW,200,0,24000*ch}; snprintf(nm,96,"silk wb 20ms fec ch%d",ch); corpus_stream(c,nm,48000,ch,OPUS_APPLICATION_VOIP,SIG_SPEECH,&k,8,NULL,0,1,0,0,2); }
      { ccfg k={REF_MODE_SILK_ONLY,BWN,600,0,16000*ch}; snprintf(nm,96,"silk nb 60ms fec ch%d",ch); corpus_stream(c,nm,48000,ch,OPUS_APPLICATION_VOIP,SIG_SPEECH,&k,6,NULL,0,1,0,0,1); }
      { ccfg k={REF_MODE_HYBRID,BWF,200,0,40000*ch}; snprintf(nm,96,"hybrid fb 20ms fec ch%d",ch); corpus_stream(c,nm,48000,ch,OPUS_APPLICATION_VOIP,SIG_SPEECH,&k,8,NULL,0,1,0,0,2); }
      /* DTX on silence (SILK) */
      { ccfg k={REF_MODE_SILK_ONLY,BWW,200,0,24000}; snprintf(nm,96,"silk dtx silence ch%d",ch); corpus_stream(c,nm,16000,ch,OPUS_APPLICATION_VOIP,SIG_SILENCE,&k,26,NULL,0,0,1,0,18); }
      /* CBR (padded) */
      { ccfg k={REF_MODE_CELT_ONLY,BWF,200,0,96000}; snprintf(nm,96,"celt cbr ch%d",ch); corpus_stream(c,nm,48000,ch,OPUS_APPLICATION_AUDIO,SIG_MULTITONE,&k,4,NULL,0,0,0,1,1); }
      /* mode transitions in both directions: carry the 5 ms redundancy frames */
      { ccfg a={REF_MODE_SILK_ONLY,BWW,200,0,32000*ch}, k={REF_MODE_CELT_ONLY,BWF,200,0,64000*ch};
        snprintf(nm,96,"transition silk->celt ch%d",ch); corpus_stream(c,nm,48000,ch,OPUS_APPLICATION_AUDIO,SIG_SPEECH,&a,4,&k,3,0,0,0,2);
        snprintf(nm,96,"transition celt->silk ch%d",ch); corpus_stream(c,nm,48000,ch,OPUS_APPLICATION_AUDIO,SIG_SPEECH,&k,4,&a,3,0,0,0,2); }
      { ccfg a={REF_MODE_HYBRID,BWF,200,0,48000*ch}, k={REF_MODE_CELT_ONLY,BWF,100,0,64000*ch};
        snprintf(nm,96,"transition hybrid->celt ch%d",ch); corpus_stream(c,nm,48000,ch,OPUS_APPLICATION_AUDIO,SIG_SPEECH,&a,4,&k,3,0,0,0,2);
        snprintf(nm,96,"transition celt->hybrid ch%d",ch); corpus_stream(c,nm,48000,ch,OPUS_APPLICATION_AUDIO,SIG_SPEECH,&k,4,&a,3,0,0,0,2); }
      { ccfg a={REF_MODE_SILK_ONLY,BWN,200,0,12000*ch}, k={REF_MODE_SILK_ONLY,BWW,200,0,24000*ch};
        snprintf(nm,96,"transition silk nb->wb ch%d",ch); corpus_stream(c,nm,48000,ch,OPUS_APPLICATION_VOIP,SIG_SPEECH,&a,4,&k,3,0,0,0,2); }
   }
   /* stereo <-> mono switches inside a 2-channel encoder */
   { ccfg a={REF_MODE_SILK_ONLY,BWW,200,2,32000}, k={REF_MODE_SILK_ONLY,BWW,200,1,20000};
     corpus_stream(c,"silk stereo->mono",48000,2,OPUS_APPLICATION_VOIP,SIG_SPEECH,&a,4,&k,3,0,0,0,2);
     corpus_stream(c,"silk mono->stereo",48000,2,OPUS_APPLICATION_VOIP,SIG_SPEECH,&k,4,&a,3,0,0,0,2); }
   { ccfg a={REF_MODE_CELT_ONLY,BWF,100,2,64000}, k={REF_MODE_CELT_ONLY,BWF,100,1,48000};
     corpus_stream(c,"celt stereo->mono",48000,2,OPUS_APPLICATION_AUDIO,SIG_MULTITONE,&a,4,&k,3,0,0,0,2); }
   /* automatic mode at a few rates (whatever the encoder picks) */
   { ccfg k={0,0,200,0,20000}; corpus_stream(c,"auto 20k",48000,2,OPUS_APPLICATION_VOIP,SIG_SPEECH,&k,5,NULL,0,0,0,0,2); }
   { ccfg k={0,0,600,0,16000}; corpus_stream(c,"auto 60ms 16k",16000,1,OPUS_APPLICATION_VOIP,SIG_SPEECH,&k,4,NULL,0,0,0,0,1); }
   /* 40-120 ms multi-frame packets straight from the encoder (codes 1/3) */
   { ccfg k={REF_MODE_CELT_ONLY,BWF,400,0,64000}; corpus_stream(c,"celt 40ms (code1/3)",48000,2,OPUS_APPLICATION_AUDIO,SIG_MULTITONE,&k,3,NULL,0,0,0,0,1); }
   { ccfg k={REF_MODE_HYBRID,BWF,600,0,40000}; corpus_stream(c,"hybrid 60ms (code3)",48000,1,OPUS_APPLICATION_VOIP,SIG_SPEECH,&k,3,NULL,0,0,0,0,1); }
   { ccfg k={REF_MODE_SILK_ONLY,BWW,1200,0,20000}; k.dur_x10=1200; corpus_stream(c,"silk 120ms",48000,1,OPUS_APPLICATION_VOIP,SIG_SPEECH,&k,2,NULL,0,0,0,0,0); }
}
/* derived packets: re-framings of consecutive packets of a stream with the reference repacketizer (codes 1/2/3), CBR padding,
   and an extension-bearing padding written by the harness's own RFC writer. Appended with kind 1/2/3. */
static void corpus_add_reframed(corpus *c){
   int s,n0=c->n; unsigned char out[8000];
   for(s=0;s<c->ns;s++){ cstream *st=&c->s[s]; int i;
      if (st->n<3) continue;
      for(i=2;i<=3;i++){ OpusRepacketizer *rp=ref_opus_repacketizer_create(); int j,ok=1,dur=0,len;
         for(j=0;j<i;j++){ cpkt *p=&c->p[st->first+j]; if(ref_opus_repacketizer_cat(rp,p->data,p->len)!=OPUS_OK){ ok=0; break; } dur+=p->dur48; }
         if(ok){ len=ref_opus_repacketizer_out(rp,out,sizeof out); if(len>0) corpus_push(c,out,len,s,-i,0,dur,1); }
         ref_opus_repacketizer_destroy(rp); }
      { /* corpus_push may realloc c->p: copy what is needed into locals first */
        cpkt p0=c->p[st->first]; const cpkt *p=&p0; if (p->len+300<(int)sizeof out){ memcpy(out,p->data,p->len); if(ref_opus_packet_pad(out,p->len,p->len+1)==OPUS_OK) corpus_push(c,out,p->len+1,s,-10,p->enc_range,p->dur48,2);
          memcpy(out,p->data,p->len); if(ref_opus_packet_pad(out,p->len,p->len+258)==OPUS_OK) corpus_push(c,out,p->len+258,s,-11,p->enc_range,p->dur48,2); } }
      { /* extension in padding: id 33 (long, L=1) with 3 payload bytes on frame 0 */
        cpkt p1=c->p[st->first]; const cpkt *p=&p1; rfc_pkt m; rfc_parse(p->data,p->len,0,&m);
        if (m.ok && m.count<=2){ const unsigned char *fr[48]; int sz[48],k,len; static const unsigned char ext[]={0x43,0x03,0xAA,0xBB,0xCC};
           for(k=0;k<m.count;k++){ fr[k]=p->data+m.off[k]; sz[k]=m.size[k]; }
           len=rfc_build(out,p->data[0],3,1,m.count,fr,sz,sizeof ext,ext,0); if(len>0) corpus_push(c,out,len,s,-20,p->enc_range,p->dur48,3); } }
   }
   (void)n0;
}
#endif
