/* signals.h — deterministic signal families (integer LCG + libm sin), generated as int16 so that the
 * int24 (x256) and float (/32768) views are exact. No clock, no rand(). */
#ifndef SIGNALS_H
#define SIGNALS_H
#include <math.h>
#include <stdint.h>
enum { SIG_SILENCE=0, SIG_SQUARE, SIG_NOISE, SIG_MULTITONE, SIG_SWEEP, SIG_SPEECH, SIG_BANDNOISE, SIG_CLICKS, SIG_STEREOPAN, SIG_NFAM };
static const char *const sig_name[SIG_NFAM]={"silence","fullscale-square","white-noise","multitone","log-sweep","speech-like","band-noise","clicks","stereo-pan"};
typedef struct { int fam; int fs; int ch; uint32_t lcg; double t; double ph[8]; double lp; long n; } siggen;
static void sig_init(siggen *g,int fam,int fs,int ch,uint32_t seed){ int i; g->fam=fam; g->fs=fs; g->ch=ch; g->lcg=seed*2654435761u+12345u; g->t=0; g->lp=0; g->n=0; for(i=0;i<8;i++) g->ph[i]=0; }
static inline int sig_rnd(siggen *g){ g->lcg=g->lcg*1664525u+1013904223u; return (int)((g->lcg>>16)&0xFFFF)-32768; }
static inline int sig_clip16(double v){ long x=lrint(v); return x>32767?32767:x<-32768?-32768:(int)x; }
/* fills frame_size*ch interleaved int16 samples */
static void sig_gen(siggen *g,short *out,int frame_size){
   int i,c,ch=g->ch; double fs=g->fs;
   for(i=0;i<frame_size;i++){
      double l=0,r=0; long n=g->n++;
      switch(g->fam){
      case SIG_SILENCE: l=r=0; break;
      case SIG_SQUARE: l=((n/37)&1)?32767:-32768; r=((n/53)&1)?-32768:32767; break;
      case SIG_NOISE: l=sig_rnd(g)*0.5; r=sig_rnd(g)*0.5; break;
      case SIG_MULTITONE: { static const double f[5]={220,440,1000,2500,3500}; int k; double s=0,s2=0; for(k=0;k<5;k++){ g->ph[k]+=2*M_PI*f[k]/fs; if(g->ph[k]>2*M_PI) g->ph[k]-=2*M_PI; s+=sin(g->ph[k]); s2+=sin(g->ph[k]*1.0+k); } l=s*4000; r=s2*4000; } break;
      case SIG_SWEEP: { double T=1.5, tt=fmod(n/fs,T), f0=60, f1=fs*0.45, f=f0*pow(f1/f0,tt/T); g->ph[0]+=2*M_PI*f/fs; if(g->ph[0]>2*M_PI) g->ph[0]-=2*M_PI; l=sin(g->ph[0])*12000; r=sin(g->ph[0]+0.7)*9000; } break;
      case SIG_SPEECH: { /* harmonic source with slowly moving pitch, syllable envelope with onsets, plus breath noise */
         double tt=n/fs, f0=110+40*sin(2*M_PI*0.7*tt), env, s=0; int k, syl=(int)(tt*4); double ps=fmod(tt*4,1.0);
         env = (syl%5==4)?0.0:(ps<0.05?ps/0.05:(ps<0.7?1.0:(1.0-ps)/0.3));
         g->ph[0]+=2*M_PI*f0/fs; if(g->ph[0]>2*M_PI) g->ph[0]-=2*M_PI;
         for(k=1;k<=12&&k*f0<fs*0.45;k++) s+=sin(k*g->ph[0])/(k*(1.0+0.1*k));
         l=env*(s*9000+sig_rnd(g)*0.02); r=env*(s*7000+sig_rnd(g)*0.02); } break;
      case SIG_BANDNOISE: { double x=sig_rnd(g); g->lp+=0.15*(x-g->lp); l=g->lp*2.0; r=(x-g->lp)*0.3; } break;
      case SIG_CLICKS: l=(n%4001==2000)?30000:((n%4001==2001)?-20000:0); r=(n%3001==1500)?-30000:0; break;
      case SIG_STEREOPAN: { g->ph[0]+=2*M_PI*440/fs; if(g->ph[0]>2*M_PI) g->ph[0]-=2*M_PI; g->ph[1]+=2*M_PI*0.5/fs; l=sin(g->ph[0])*12000*(0.5+0.5*sin(g->ph[1])); r=sin(g->ph[0]+1.0)*12000*(0.5-0.5*sin(g->ph[1])); } break;
      }
      if (ch==1) out[i]=(short)sig_clip16(l);
      else { out[ch*i]=(short)sig_clip16(l); out[ch*i+1]=(short)sig_clip16(r); for(c=2;c<ch;c++) out[ch*i+c]=(short)sig_clip16((c&1)?l*0.5:r*0.5); }
   }
}
#endif
